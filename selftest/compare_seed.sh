#!/bin/bash
# usage: compare_seed.sh <verif-commit-or-HEAD> <seed-id>...   -> runs the check of that /verif version against each seeded change
rev=$1; shift
git -C /verif worktree remove --force /tmp/verif_at >/dev/null 2>&1
git -C /verif worktree add -q --detach /tmp/verif_at $rev || exit 2
for n in "$@"; do
  p=c15; case $n in c11*|m*|r*) p=c11;; esac
  git -C /repo worktree remove --force /tmp/mut_at_$n >/dev/null 2>&1
  git -C /repo worktree add -q --detach /tmp/mut_at_$n HEAD && git -C /tmp/mut_at_$n apply /verif/seeded/$n/patch.diff || { echo "$n apply failed"; continue; }
  (cd /tmp/verif_at && VERIF_REPO=/tmp/mut_at_$n VERIF_EVIDENCE_DIR=/tmp/ev_at VERIF_REPLAY_DIR=/tmp/rp_at timeout 1500 ./check $p --no-selftest > /tmp/at_$n.log 2>&1; echo "$n @$rev $p exit=$? violation_lines=$(grep -c ^VIOLATION /tmp/at_$n.log)")
  git -C /repo worktree remove --force /tmp/mut_at_$n
done
git -C /verif worktree remove --force /tmp/verif_at; rm -rf /tmp/ev_at /tmp/rp_at
