#!/bin/bash
# Sensitivity: apply each mutant to a scratch worktree of /repo (never to /repo itself), confirm the repository's own
# test suite still passes there, run the quick checks against it (VERIF_REPO), record which check fires, remove the worktree.
# usage: selftest/run_mutants.sh [dir-with-diffs] [name-filter]
set -u
HERE=$(cd "$(dirname "$0")/.." && pwd)
DIR=${1:-$HERE/selftest/mutants}
FILTER=${2:-}
OUT=${MUTANT_REPORT:-$HERE/selftest/mutants_report.txt}
: > "$OUT"
for diff in "$DIR"/*.diff "$DIR"/*/patch.diff; do
  [ -e "$diff" ] || continue
  name=$(basename "$diff" .diff); [ "$name" = patch ] && name=$(basename "$(dirname "$diff")")
  case "$name" in *"$FILTER"*) ;; *) continue;; esac
  wt=/tmp/mut_$name
  git -C /repo worktree remove --force "$wt" >/dev/null 2>&1
  git -C /repo worktree add -q --detach "$wt" HEAD || { echo "$name worktree-failed" >> "$OUT"; continue; }
  if ! git -C "$wt" apply "$diff"; then echo "$name apply-failed" >> "$OUT"; git -C /repo worktree remove --force "$wt"; continue; fi
  tests=$(cd "$wt" && timeout 900 /venv/bin/python -m pytest -q -p no:cacheprovider -x 2>&1 | tail -1)
  export VERIF_REPO=$wt VERIF_EVIDENCE_DIR=/tmp/mut_ev_$name VERIF_REPLAY_DIR=/tmp/mut_rp_$name
  # ONLY_RELEVANT=1: run only the check of the property the change is aimed at (c11_*, m*, r* -> C11; c15_*, n* -> C15)
  run11=1; run15=1
  if [ "${ONLY_RELEVANT:-0}" = 1 ]; then
    case "$name" in c11*|m*|r*) run15=0;; c15*|n*) run11=0;; esac
  fi
  : > /tmp/mut_c11_$name.log; : > /tmp/mut_c15_$name.log
  t0=$(date +%s); c11=skipped; c15=skipped
  [ $run11 = 1 ] && { (cd "$HERE" && timeout 1800 ./check c11 --tier quick --no-selftest > /tmp/mut_c11_$name.log 2>&1); c11=$?; }
  t1=$(date +%s)
  [ $run15 = 1 ] && { (cd "$HERE" && timeout 1800 ./check c15 --tier quick --no-selftest > /tmp/mut_c15_$name.log 2>&1); c15=$?; }
  t2=$(date +%s)
  unset VERIF_REPO VERIF_EVIDENCE_DIR VERIF_REPLAY_DIR
  v11=$(grep -c '^VIOLATION' /tmp/mut_c11_$name.log); v15=$(grep -c '^VIOLATION' /tmp/mut_c15_$name.log)
  echo "$name tests=[$tests] c11_exit=$c11 c11_violation_lines=$v11 c11_s=$((t1-t0)) c15_exit=$c15 c15_violation_lines=$v15 c15_s=$((t2-t1))" | tee -a "$OUT"
  git -C /repo worktree remove --force "$wt"
  rm -rf /tmp/mut_ev_$name /tmp/mut_rp_$name
done
