#!/bin/bash
# Confirm a sub-agent's seeded change independently: fresh worktree of /repo HEAD, demo passes without the patch,
# patch applies, repository test suite still passes, demo fails with the patch. Then keep it under /verif/seeded/<id>/.
# usage: confirm_seed.sh <agent-worktree> <id>
set -u
src=$1; id=$2
HERE=$(cd "$(dirname "$0")/.." && pwd)
wt=/tmp/confirm_$id
git -C /repo worktree remove --force $wt >/dev/null 2>&1
git -C /repo worktree add -q --detach $wt HEAD || exit 2
cp $src/demo_seed.py $wt/demo_seed.py
(cd $wt && PYTHONPATH=$wt timeout 600 /venv/bin/python demo_seed.py >/tmp/confirm_$id.without.log 2>&1); without=$?
git -C $wt apply $src/patch.diff || { echo "patch does not apply"; git -C /repo worktree remove --force $wt; exit 2; }
tests=$(cd $wt && timeout 900 /venv/bin/python -m pytest -q -p no:cacheprovider 2>&1 | tail -1)
(cd $wt && PYTHONPATH=$wt timeout 600 /venv/bin/python demo_seed.py >/tmp/confirm_$id.with.log 2>&1); with=$?
echo "id=$id demo_without_patch_exit=$without demo_with_patch_exit=$with tests_with_patch=[$tests]"
git -C /repo worktree remove --force $wt
if [ $without -eq 0 ] && [ $with -ne 0 ] && echo "$tests" | grep -q '333 passed'; then
  mkdir -p $HERE/seeded/$id && cp $src/patch.diff $src/demo_seed.py $HERE/seeded/$id/ && echo CONFIRMED
else
  echo NOT-CONFIRMED
fi
