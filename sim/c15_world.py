"""
C15 world: the supply channels (str, list of lines, file object, command-line tool), a simulated raw
file device / file system / stdout sink with seeded short reads, short writes and I/O faults, and the
channel drivers that run the REAL mistletoe (library, cli, __main__, argparse, io.TextIOWrapper /
BufferedReader / BufferedWriter) on top of them.
"""
import errno
import io
import json
import os
import random
import sys

from . import core
from . import c11_world as W          # renderer table + import of the tree under test

import mistletoe                      # noqa: E402
import mistletoe.cli as cli_mod       # noqa: E402
import mistletoe.__main__ as main_mod  # noqa: E402

# characters on which str.splitlines() and file iteration disagree with "only \n terminates a line"
FORBIDDEN = set('\r\x0b\x0c\x1c\x1d\x1e\x85\u2028\u2029')


def in_domain(text):
    if any(c in FORBIDDEN for c in text):
        return False
    try:
        text.encode('utf-8')
    except UnicodeEncodeError:
        return False
    return True


def dotted(rid):
    mod, name, _ = W.RENDERERS[rid]
    return mod + '.' + name


def spellings(rid):
    """Every dotted path under which the tool's `-r` can reach this very class object: the canonical one first, then every
    other `module.attribute` inside the mistletoe package whose value IS the class (old aliases such as HTMLRenderer,
    re-exports such as mistletoe.HtmlRenderer, names imported into other modules). Read from the tree under test, sorted."""
    cls = W.renderer_class(rid)
    canon = dotted(rid)
    found = set()
    for m, mod in list(sys.modules.items()):
        if mod is None or not (m == 'mistletoe' or m.startswith('mistletoe.')):
            continue
        for a, v in list(vars(mod).items()):
            if v is cls:
                found.add(m + '.' + a)
    found.discard(canon)
    return [canon] + sorted(found)


# ---------------------------------------------------------------------------------------------
# simulated devices

class SimRawFile(io.RawIOBase):
    """Raw byte device: serves seeded chunk sizes (short reads), can fail with EIO on the n-th read."""

    def __init__(self, data, rng, max_chunk, eio_at_read=None, stats=None):
        super().__init__()
        self.data = data
        self.pos = 0
        self.rng = rng
        self.max_chunk = max_chunk
        self.reads = 0
        self.eio_at_read = eio_at_read
        self.stats = stats if stats is not None else {}

    def readable(self):
        return True

    def readinto(self, b):
        self.reads += 1
        if self.eio_at_read is not None and self.reads >= self.eio_at_read:
            self.stats['EIO'] = self.stats.get('EIO', 0) + 1
            raise OSError(errno.EIO, 'simulated I/O error')
        if self.pos >= len(self.data):
            return 0
        n = min(len(b), self.rng.randint(1, self.max_chunk), len(self.data) - self.pos)
        if n < min(len(b), len(self.data) - self.pos):
            self.stats['short_read'] = self.stats.get('short_read', 0) + 1
        b[:n] = self.data[self.pos:self.pos + n]
        self.pos += n
        return n


class SimRawSink(io.RawIOBase):
    """Raw sink: accepts a seeded prefix of each write (short writes); EPIPE/ENOSPC once `fail_at` bytes were taken."""

    def __init__(self, rng, max_chunk, fail_at=None, fail_errno=errno.EPIPE, stats=None, tty=False, again_at=None, again_times=0):
        super().__init__()
        self.buf = bytearray()
        self.rng = rng
        self.max_chunk = max_chunk
        self.fail_at = fail_at
        self.fail_errno = fail_errno
        self.stats = stats if stats is not None else {}
        self.tty = tty
        self.again_at = again_at          # transient EAGAIN: a non-blocking pipe that is full `again_times` times at this offset
        self.again_left = again_times

    def writable(self):
        return True

    def isatty(self):
        return self.tty

    def write(self, b):
        b = bytes(b)
        if not b:
            return 0
        if self.again_at is not None and self.again_left > 0 and len(self.buf) >= self.again_at:
            self.again_left -= 1
            self.stats['EAGAIN'] = self.stats.get('EAGAIN', 0) + 1
            return None                  # what a raw non-blocking file does when it would block
        n = min(len(b), self.rng.randint(1, self.max_chunk))
        if self.again_at is not None and self.again_left > 0 and len(self.buf) < self.again_at:
            n = min(n, self.again_at - len(self.buf))
        if self.fail_at is not None:
            room = self.fail_at - len(self.buf)
            if room <= 0:
                name = errno.errorcode[self.fail_errno]
                self.stats[name] = self.stats.get(name, 0) + 1
                raise OSError(self.fail_errno, 'simulated ' + name)
            n = min(n, room)
        if n < len(b):
            self.stats['short_write'] = self.stats.get('short_write', 0) + 1
        self.buf += b[:n]
        return n


class SpyEnviron(dict):
    """Stands in for os.environ while the tool runs: same content (plus the scenario's extra variables), and it records which
    variables that are NOT set the tool's own code asked for. Only look-ups made from a frame inside the mistletoe package
    count (argparse, locale, tempfile and friends consult the environment for reasons of their own)."""

    def __init__(self, real, extra, package_dir):
        super().__init__(real)
        self.update(extra)
        self.package_dir = package_dir
        self.missed = set()

    def _note(self, key):
        if key in self:
            return
        f = sys._getframe(2)
        for _ in range(4):
            if f is None:
                break
            if f.f_code.co_filename.startswith(self.package_dir):
                self.missed.add(str(key))
                return
            f = f.f_back

    def get(self, key, default=None):
        self._note(key)
        return super().get(key, default)

    def __getitem__(self, key):
        self._note(key)
        return super().__getitem__(key)

    def __contains__(self, key):
        present = super().__contains__(key)
        if not present:
            f = sys._getframe(1)
            for _ in range(4):
                if f is None:
                    break
                if f.f_code.co_filename.startswith(self.package_dir):
                    self.missed.add(str(key))
                    break
                f = f.f_back
        return present


class SimFS:
    """Directory of simulated files; `open` replacement for the module under test."""

    def __init__(self, files, rng, knobs, fault, stats):
        self.files = files            # name -> bytes
        self.rng = rng
        self.knobs = knobs
        self.fault = fault or {}
        self.stats = stats
        self.opened = []

    def _canonical(self, name):
        """A tree may legitimately normalise or absolutise a path before opening it: resolve it back to the name it was given."""
        if name in self.files:
            return name
        cands = {n: n for n in self.files}
        for n in self.files:
            cands[os.path.normpath(n)] = n
            cands[os.path.abspath(n)] = n
            cands[os.path.realpath(n)] = n
        return cands.get(name) or cands.get(os.path.normpath(name)) or name

    def open(self, file, mode='r', buffering=-1, encoding=None, errors=None, newline=None, closefd=True, opener=None):
        name = os.fspath(file)
        if isinstance(name, bytes):
            name = name.decode()
        self.opened.append(name)
        name = self._canonical(name)
        if any(c in mode for c in 'wxa+'):
            raise core.HarnessError('tool under test opened %r for writing (mode %r)' % (name, mode))
        f = self.fault
        if f.get('kind') in ('ENOENT', 'EACCES') and name == f.get('file_name'):
            self.stats[f['kind']] = self.stats.get(f['kind'], 0) + 1
            e = errno.ENOENT if f['kind'] == 'ENOENT' else errno.EACCES
            raise OSError(e, os.strerror(e), name)
        if name not in self.files:
            raise FileNotFoundError(errno.ENOENT, os.strerror(errno.ENOENT), name)
        eio = f.get('at') if f.get('kind') == 'EIO' and name == f.get('file_name') else None
        raw = SimRawFile(self.files[name], self.rng, self.knobs['read_chunk'], eio, self.stats)
        bufsize = self.knobs['bufsize'] if buffering in (-1, None) or buffering < 2 else buffering
        buffered = io.BufferedReader(raw, buffer_size=bufsize)
        if 'b' in mode:
            return buffered
        enc = encoding or self.knobs['locale']
        if encoding is None:
            self.stats['locale_used'] = self.stats.get('locale_used', 0) + 1
        return io.TextIOWrapper(buffered, encoding=enc, errors=errors, newline=newline)


# ---------------------------------------------------------------------------------------------
# channel drivers (each is run in its own fork of the pristine process)

def _outcome(fn):
    try:
        return ('ok', fn())
    except SystemExit as e:
        return ('exit', str(e.code))
    except Exception as e:
        return core.norm_exc(e)


def lib_channel(channel, text, rid, knobs=None, seed=0):
    """Supply `text` to mistletoe.markdown in the given form; returns an outcome."""
    R = W.renderer_class(rid)
    if channel == 'str':
        return _outcome(lambda: mistletoe.markdown(text, R))
    if channel == 'str_nl':
        return _outcome(lambda: mistletoe.markdown(text + '\n', R))
    if channel == 'lines_keepends':
        return _outcome(lambda: mistletoe.markdown(text.splitlines(keepends=True), R))
    if channel == 'lines_noends':
        return _outcome(lambda: mistletoe.markdown(text.split('\n')[:-1] if text.endswith('\n') else text.split('\n') if text else [], R))
    if channel in ('lines_mixed_head_bare', 'lines_mixed_alternating', 'lines_mixed_tail_bare'):
        # a list whose elements are not uniformly terminated (bare header lines put in front of f.readlines(), ...)
        lines = text.splitlines(keepends=True)
        rng = random.Random(seed)
        if channel == 'lines_mixed_head_bare':
            k = rng.randint(1, max(1, len(lines) - 1))
            lines = [l.rstrip('\n') if i < k else l for i, l in enumerate(lines)]
        elif channel == 'lines_mixed_tail_bare':
            k = rng.randint(0, max(0, len(lines) - 1))
            lines = [l.rstrip('\n') if i >= k else l for i, l in enumerate(lines)]
        else:
            lines = [l.rstrip('\n') if i % 2 == 0 and i != len(lines) - 1 else l for i, l in enumerate(lines)]
        return _outcome(lambda: mistletoe.markdown(lines, R))
    if channel == 'lines_tuple':
        return _outcome(lambda: mistletoe.markdown(tuple(text.splitlines(keepends=True)), R))
    if channel == 'lines_generator':
        return _outcome(lambda: mistletoe.markdown((l for l in text.splitlines(keepends=True)), R))
    if channel == 'stringio':
        return _outcome(lambda: mistletoe.markdown(io.StringIO(text), R))
    if channel == 'realfile':
        import tempfile

        def go():
            with tempfile.TemporaryDirectory(prefix='c15-') as d:
                p = os.path.join(d, 'doc.md')
                with open(p, 'wb') as f:
                    f.write(text.encode('utf-8'))
                with open(p, 'r', encoding='utf-8') as fin:
                    return mistletoe.markdown(fin, R)
        return _outcome(go)
    if channel == 'simfile':
        rng = random.Random(seed)
        raw = SimRawFile(text.encode('utf-8'), rng, knobs['read_chunk'])
        fin = io.TextIOWrapper(io.BufferedReader(raw, buffer_size=knobs['bufsize']), encoding='utf-8')
        return _outcome(lambda: mistletoe.markdown(fin, R))
    raise core.HarnessError('unknown channel %r' % channel)


LIB_CHANNELS = ['lines_keepends', 'lines_noends', 'lines_mixed_head_bare', 'lines_mixed_alternating', 'lines_mixed_tail_bare',
                'lines_tuple', 'lines_generator', 'stringio', 'realfile', 'simfile']


ARGV_SHAPES = ['-r X files', '--renderer X files', '--renderer=X files', 'files -r X', '--rend X files', '-rX files']


def build_argv(rid, files, knobs):
    """The same request spelled the ways argparse accepts: short/long option, '=' form, option after the files,
    unambiguous abbreviation, glued short option. '--' when a file name starts with '-' (then the option comes first)."""
    files = list(files)
    dashes = ['--'] if any(n.startswith('-') for n in files) else []
    if rid == 'Html' and knobs.get('omit_r'):
        return dashes + files
    x = dotted(rid)
    if knobs.get('r_spelling'):
        sp = spellings(rid)
        x = sp[knobs['r_spelling'] % len(sp)]
    shape = knobs.get('argv_shape') or ARGV_SHAPES[0]
    if dashes and shape == 'files -r X':
        shape = ARGV_SHAPES[0]
    if shape == '--renderer X files':
        return ['--renderer', x] + dashes + files
    if shape == '--renderer=X files':
        return ['--renderer=' + x] + dashes + files
    if shape == 'files -r X':
        return files + ['-r', x]
    if shape == '--rend X files':
        return ['--rend', x] + dashes + files
    if shape == '-rX files':
        return ['-r' + x] + dashes + files
    return ['-r', x] + dashes + files


def cli_channel(scn):
    """
    Run the real command-line tool in this process against the simulated file system and sink.
    scn: {'R', 'files': [[name, bytes-as-latin1-str]], 'argv_files': [names], 'knobs', 'fault', 'seed'}
    Returns {'outcome', 'sink' (bytes), 'stats', 'opened'}.
    """
    rng = random.Random(scn['seed'])
    stats = {}
    knobs = scn['knobs']
    files = {name: data for name, data in scn['files']}
    fs = SimFS(files, rng, knobs, scn.get('fault'), stats)
    fault = scn.get('fault') or {}
    fail_at, fail_errno = None, errno.EPIPE
    if fault.get('kind') in ('EPIPE', 'ENOSPC'):
        fail_at = fault['at']
        fail_errno = errno.EPIPE if fault['kind'] == 'EPIPE' else errno.ENOSPC
    again_at, again_times = (fault['at'], fault.get('times', 1)) if fault.get('kind') == 'EAGAIN' else (None, 0)
    sink = SimRawSink(rng, knobs['write_chunk'], fail_at, fail_errno, stats, tty=bool(knobs.get('tty')),
                      again_at=again_at, again_times=again_times)
    out = io.TextIOWrapper(io.BufferedWriter(sink, buffer_size=knobs['out_bufsize']), encoding=knobs['stdout_encoding'],
                           errors='strict', newline='', write_through=False)
    argv = build_argv(scn['R'], scn['argv_files'], knobs)
    # A real directory that mirrors the simulated one, as working directory: whatever else the tool asks the real file
    # system (glob, os.path.exists, pathlib) sees the same files the simulated open() serves.
    import shutil
    import tempfile
    mirror = tempfile.mkdtemp(prefix='c15-mirror-')
    work = os.path.join(mirror, 'w')
    os.makedirs(work)
    for name, data in files.items():
        if fault.get('kind') in ('ENOENT', 'EACCES') and name == fault.get('file_name'):
            continue
        path = os.path.normpath(os.path.join(work, name))
        if not path.startswith(mirror + os.sep):
            continue
        try:
            os.makedirs(os.path.dirname(path), exist_ok=True)
            with open(path, 'wb') as f:
                f.write(data)
        except OSError:
            pass
    old_cwd = os.getcwd()
    os.chdir(work)
    real_stdout, real_argv = sys.stdout, sys.argv
    real_environ = os.environ
    spy = SpyEnviron(real_environ, scn.get('env') or {}, os.path.dirname(os.path.abspath(mistletoe.__file__)) + os.sep)
    os.environ = spy
    had_open = 'open' in cli_mod.__dict__
    old_open = cli_mod.__dict__.get('open')
    cli_mod.open = fs.open
    sys.stdout = out
    try:
        if knobs['entry'] == '__main__':
            sys.argv = ['mistletoe'] + argv
            outcome = _outcome(lambda: main_mod.main())
        else:
            outcome = _outcome(lambda: cli_mod.main(argv))
        # interpreter shutdown would flush stdout; do the same, a failing flush is part of the run
        try:
            out.flush()
        except Exception as e:
            if outcome[0] == 'ok':
                outcome = ('flush-' + core.norm_exc(e)[1], core.norm_exc(e)[2])
    finally:
        os.environ = real_environ
        os.chdir(old_cwd)
        shutil.rmtree(mirror, ignore_errors=True)
        sys.stdout, sys.argv = real_stdout, real_argv
        if had_open:
            cli_mod.open = old_open
        else:
            del cli_mod.open
    if outcome[0] == 'ok':
        outcome = ('ok', None)
    return {'outcome': outcome, 'sink': bytes(sink.buf), 'stats': stats, 'opened': fs.opened, 'env_missed': sorted(spy.missed)}


def eval_in_process(req):
    """Helper for the fresh-interpreter self-test: evaluate one channel here."""
    if req['what'] == 'lib':
        return list(lib_channel(req['channel'], req['text'], req['R'], req.get('knobs'), req.get('seed', 0)))
    scn = dict(req['scn'])
    scn['files'] = [[n, bytes.fromhex(h)] for n, h in scn['files']]
    res = cli_channel(scn)
    return {'outcome': list(res['outcome']), 'sink': res['sink'].hex()}


# ---------------------------------------------------------------------------------------------
# sink acceptance under faults (DESIGN 5.3): deliberately narrow

def sink_ok_under_fault(sink, outs, k, stdout_fault):
    """
    outs[i]: bytes the tool prints for file i when nothing goes wrong. The fault hit file k (or stdout).
    stdout fault: whatever got out must be a prefix of the fault-free output.
    input fault at file k: files before k were processed completely -> present in full, in order; of file k any
    prefix of its true output may have got out (a streaming tool), never anything else; later files, each
    completely or not at all, may follow (a tool that skips an unreadable file and carries on).
    """
    full = b''.join(outs)
    if stdout_fault:
        return full.startswith(sink)
    pos = 0
    for i in range(k):
        if not sink.startswith(outs[i], pos):
            return False
        pos += len(outs[i])
    rest = sink[pos:]
    ok = outs[k]
    lcp = 0
    while lcp < len(rest) and lcp < len(ok) and rest[lcp] == ok[lcp]:
        lcp += 1

    def tail_ok(p, i):
        if p == len(rest):
            return True
        if i >= len(outs):
            return False
        if outs[i] and rest.startswith(outs[i], p) and tail_ok(p + len(outs[i]), i + 1):
            return True
        return tail_ok(p, i + 1)
    for L in sorted({lcp, 0} | set(range(0, lcp + 1)), key=lambda x: (x != lcp, x)):
        if tail_ok(L, k + 1):
            return True
    return False
