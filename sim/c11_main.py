import json
import time

from . import core


def main(tier, seed, replay, no_selftest):
    from . import c11_check as C, selftest
    if replay:
        return do_replay(replay)
    st = {}
    if not no_selftest:
        t = time.time()
        st['token_table'] = selftest.c11_token_table()
        st['determinism'] = selftest.c11_determinism(seed, 'quick', 200 if tier == 'thorough' else 64)
        st['oracle_vs_fresh_interpreter'] = selftest.c11_oracle_fidelity(seed, 40 if tier == 'thorough' else 24)
        st['wall_s'] = round(time.time() - t, 2)
        print('selftests ok: %s' % json.dumps(st))
    out = C.run_check(tier, seed)
    path = C.evidence(tier, seed, out, st)
    tot = out['total']
    print('C11 %s: runs=%d observations=%d compared=%d faults_fired=%s natural_exc=%d distinct_nontrivial=%d '
          'fingerprints=%d violations_seen=%d reported=%d known=%d wall=%.1fs (warm %.1fs, run %.1fs) evidence=%s' % (
              tier, tot['runs'], tot['obs'], tot['compared'], json.dumps(tot['faults'], sort_keys=True), tot['natural_exc'],
              len(tot['digests']), len(tot['fps']), tot['violations'], len(out['reported']), len(set(out['known_lines'])),
              out['wall'], out['t_warm'], out['t_run'], path))
    return core.EXIT_VIOLATION if out['reported'] else core.EXIT_OK


def do_replay(path):
    """Fresh interpreter: oracle for every step first (forks of this pristine process), then the history in-process."""
    from . import c11_check as C, c11_world as W
    with open(path, encoding='utf-8') as f:
        rec = json.load(f)
    history = rec['history']
    judge = C.Judge()
    res = judge.run(history, want_log=True)           # judged the way it was found (fork of pristine)
    v = res['violation']
    # and literally in this interpreter, which has not used mistletoe so far
    recs = []
    if rec['failing']['kind'] != 'HANG':
        W.execute(history, recs.append)
    if v is None:
        print('NOT-REPRODUCED: the recorded history now passes (%d observations compared)' % res['n_compared'])
        return core.EXIT_OK
    same = (v['failing']['b'] == rec['failing']['b'] and v['failing']['s'] == rec['failing']['s']
            and v['actual'] == rec['actual'] and v['expected'] == rec['expected'])
    inproc = None
    for r in recs:
        if r['b'] == v['failing']['b'] and r['s'] == v['failing']['s'] and r['kind'] == v['failing']['kind']:
            inproc = list(r['outcome'])
    if not same or (recs and inproc != rec['actual']):
        print('REPLAY-DIVERGED: a violation shows, but not the recorded one: now step=%s actual=%s (in-process %s); recorded step=%s actual=%s'
              % ([v['failing']['b'], v['failing']['s']], json.dumps(v['actual'])[:200], json.dumps(inproc)[:200],
                 [rec['failing']['b'], rec['failing']['s']], json.dumps(rec['actual'])[:200]))
        return core.EXIT_HARNESS
    print('REPRODUCED at block %s step %s (%s): expected=%s actual=%s implicated=%s' % (
        v['failing']['b'], v['failing']['s'], v['failing']['kind'], json.dumps(v['expected'])[:300],
        json.dumps(v['actual'])[:300], json.dumps(v['implicated'])))
    print('VIOLATION property=C11 replay=%s' % path)
    return core.EXIT_VIOLATION
