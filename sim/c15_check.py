"""C15 check driver: judge supply-channel scenarios, shrink, report, write evidence."""
import copy
import hashlib
import json
import os
import subprocess
import sys
import tempfile
import time

from . import core
from . import findings as findings_mod
from . import shrink as shrink_mod
from . import c11_world as W
from . import c15_world as CW
from . import c15_gen as G
from . import c11_docs as D

PROP = 'C15'
TIMEOUT = 30.0


def _sha(text):
    return hashlib.sha256(text.encode('utf-8', 'surrogatepass')).hexdigest()[:16]


def _fork(fn, size=0):
    """Evaluate one channel in a fork of this pristine process. The watchdog scales with the text size (a megabyte pushed
    through a device that serves one byte per call is slow, not stuck). A timeout is retried once with four times the
    budget; a second timeout is a harness error (exit 2) - a watchdog never turns into a verdict."""
    budget = TIMEOUT + size / 2000.0
    for attempt in (1, 4):
        frames, status = core.fork_stream(lambda emit: emit(fn()), budget * attempt)
        if status == 'timeout':
            continue
        if status != 'ok' or len(frames) != 1:
            raise core.HarnessError('channel child failed: %s' % status)
        return frames[0]
    raise core.HarnessError('channel evaluation gave no result within %ds (text size %d)' % (budget * 4, size))


class Judge:
    """Pristine process; every channel evaluation is its own fork, so the only history inside a C15 run is the one the
    property names (several files through one invocation of the command-line tool)."""

    def __init__(self):
        self.refs = {}
        self.seam = None
        self.env_keys = set()      # unset environment variables the tool's own code asked for (discovered by the canary)

    def ref(self, rid, text):
        key = (rid, text)
        if key not in self.refs:
            if len(self.refs) > 20000:
                self.refs.clear()
            self.refs[key] = tuple(_fork(lambda: CW.lib_channel('str', text, rid), len(text)))
        return self.refs[key]

    def check_seam(self):
        """Canary: a file that exists only in the simulated file system. If the tool cannot see it, the seam is lost."""
        if self.seam is None:
            scn = {'R': 'Html', 'files': [['canary.md', b'canary *text*\n']], 'argv_files': ['canary.md'], 'seed': 1, 'fault': None,
                   'knobs': {'bufsize': 8192, 'read_chunk': 8192, 'write_chunk': 8192, 'out_bufsize': 8192, 'locale': 'utf-8',
                             'stdout_encoding': 'utf-8', 'entry': 'cli.main', 'omit_r': False}}
            res = _fork(lambda: CW.cli_channel(scn))
            if isinstance(res, dict):
                self.env_keys.update(res.get('env_missed') or [])
            self.seam = isinstance(res, dict) and res['sink'] == b'<p>canary <em>text</em></p>\n' and res['opened'] == ['canary.md']
        return self.seam

    def run(self, scn):
        """Returns result dict with comparisons count, fault stats and the first violation (or None)."""
        rid, texts, names, knobs = scn['R'], scn['texts'], scn['names'], scn['knobs']
        if sum(len(t) for t in texts) > 200000:
            # keep the number of device calls bounded for very large texts (short reads/writes still happen, 64 bytes at a time)
            knobs = dict(knobs, read_chunk=max(knobs['read_chunk'], 64), write_chunk=max(knobs['write_chunk'], 64),
                         bufsize=max(knobs['bufsize'], 64), out_bufsize=max(knobs['out_bufsize'], 64))
        # one path, one content: when a path is named twice the file holds the text given for its last occurrence
        by_name = {}
        for n, t in zip(names, texts):
            by_name[n] = t
        texts = [by_name[n] for n in names]
        res = {'compared': 0, 'stats': {}, 'violation': None, 'fault_fired': False, 'lines': []}

        def viol(channel, text, expected, actual, extra=None):
            if res['violation'] is None:
                v = {'property': PROP, 'failing': {'kind': 'CHANNEL', 'channel': channel, 'R': rid, 'text_sha': _sha(text or ''),
                                                   'text': text},
                     'expected': expected, 'actual': actual, 'klass': channel, 'scenario': scn}
                if extra:
                    v['detail'] = extra
                res['violation'] = v

        def cmp(channel, text, expected, actual):
            res['compared'] += 1
            res['lines'].append('%s %s %s' % (channel, _sha(text), core.sha(list(actual))[:16]))
            if tuple(expected) != tuple(actual):
                viol(channel, text, list(expected), list(actual))

        refs = [self.ref(rid, t) for t in texts]
        reach = res['reach'] = []
        if any(r[0] == 'ok' and r[1] and not r[1].endswith('\n') for r in refs[:-1]):
            reach.append('nonlast_file_output_without_final_newline')
        if any(r[0] == 'ok' and r[1] == '' for r in refs[:-1]):
            reach.append('nonlast_file_empty_output')
        if any(r[0] != 'ok' for r in refs):
            reach.append('library_raises_on_a_file')
        if any(len(t) > 65536 for t in texts):
            reach.append('text_over_64k_chars')
        if len(set(names)) < len(names):
            reach.append('same_path_twice')
        if scn.get('shape') == 'cross_file':
            reach.append('file_pair_sharing_a_cache_key')
        if knobs.get('r_spelling') and not (rid == 'Html' and knobs.get('omit_r')):
            sp = CW.spellings(rid)
            if sp[knobs['r_spelling'] % len(sp)] != sp[0]:
                reach.append('renderer_named_by_alias_or_reexport')
        # library channels on the first text (scenarios rotate texts, so every text gets there)
        t0 = texts[0]
        only = scn.get('only')          # set while shrinking: evaluate just the channel whose violation is being minimised
        if not scn.get('cli_only') and not (only and only.startswith('cli')):
            for ch in CW.LIB_CHANNELS:
                if only and ch != only:
                    continue
                out = _fork(lambda: CW.lib_channel(ch, t0, rid, knobs, scn['seed']), len(t0))
                cmp(ch, t0, refs[0], out)
            if t0 and not t0.endswith('\n') and (not only or only == 'str_nl'):
                out = _fork(lambda: CW.lib_channel('str_nl', t0, rid), len(t0))
                cmp('str_nl', t0, refs[0], out)
        # command-line tool
        if only and not only.startswith('cli'):
            return res
        if not self.check_seam():
            res['seam_lost'] = True
            return res
        fault = copy.deepcopy(scn.get('fault'))
        files = {}
        for n, t in zip(names, texts):
            files[n] = t.encode('utf-8')
        if fault and fault['kind'] == 'BADUTF8':
            data = files[fault['file_name']]
            off = min(len(data), fault['at'])
            files[fault['file_name']] = data[:off] + b'\xff\xfe' + data[off:]
        cscn = {'R': rid, 'files': [[n, files[n]] for n in files], 'argv_files': names, 'knobs': knobs, 'fault': fault,
                'seed': scn['seed']}
        explicit_r = not (rid == 'Html' and knobs.get('omit_r'))
        if self.env_keys and explicit_r and scn['seed'] % 2 == 0:
            # An explicit -r must win over anything the environment says: set a variable the tool is known to consult to a
            # plausible value (another renderer's dotted path, or a flag) and judge as usual. Without an explicit -r nothing
            # can be expected of such a variable, so it is only set when -r is given.
            keys = sorted(self.env_keys)
            key = keys[scn['seed'] // 2 % len(keys)]
            cands = [CW.dotted(r) for r in W.BUNDLED_IDS if r != rid] + ['1', 'true', 'mistletoe.HtmlRenderer']
            cscn['env'] = {key: cands[scn['seed'] // 7 % len(cands)]}
            res['reach'].append('env_var_consulted_by_tool_set')
        out = _fork(lambda: CW.cli_channel(cscn), sum(len(t) for t in texts))
        if isinstance(out, dict):
            self.env_keys.update(out.get('env_missed') or [])
        if not isinstance(out, dict):
            viol('cli', t0, ['ok', 'terminates'], list(out))
            return res
        res['stats'] = out['stats']
        sink = out['sink']
        outs = [r[1].encode('utf-8') if r[0] == 'ok' else None for r in refs]
        fired = None
        if fault:
            k = fault['kind']
            if k == 'BADUTF8':
                fired = True
                res['stats']['BADUTF8'] = 1
            else:
                fired = out['stats'].get(k, 0) > 0
        res['fault_fired'] = bool(fired)
        res['compared'] += 1
        res['lines'].append('cli %s %s' % (core.sha(list(out['outcome']))[:16], hashlib.sha256(sink).hexdigest()[:16]))
        first_exc = next((i for i, r in enumerate(refs) if r[0] != 'ok'), None)
        if not fired:
            # strict: bytes are the concatenation of the per-file references, or decode to it under the declared encoding
            upto = len(refs) if first_exc is None else first_exc
            expect = b''.join(outs[:upto])
            good = sink == expect
            if not good:
                try:
                    good = sink.decode(knobs['stdout_encoding']) == expect.decode('utf-8')
                except (UnicodeDecodeError, LookupError):
                    good = False
            if not good:
                viol('cli', texts[min(upto, len(texts) - 1)] if texts else '', ['bytes', expect.hex()], ['bytes', sink.hex()],
                     {'cli_outcome': list(out['outcome'])})
            elif first_exc is None and out['outcome'][0] != 'ok':
                viol('cli', t0, ['ok', None], list(out['outcome']), {'note': 'tool failed although every file renders'})
            elif first_exc is not None:
                r = refs[first_exc]
                if (out['outcome'][0], out['outcome'][1]) != (r[0], r[1]) and out['outcome'][0] == 'ok':
                    viol('cli', texts[first_exc], list(r), list(out['outcome']),
                         {'note': 'library raises on this text but the tool reported success'})
        else:
            stdout_fault = fault['kind'] in ('EPIPE', 'ENOSPC', 'EAGAIN')
            k_eff = names.index(fault['file_name'])
            if fault['kind'] == 'BADUTF8':
                # not a text of the domain: only "files before it are complete and in order" is demanded
                before = b''.join(o or b'' for o in outs[:k_eff])
                ok = sink.startswith(before) if all(o is not None for o in outs[:k_eff]) else True
            elif any(o is None for o in outs):
                # a text on which the tree itself raises: only the files before it define expected output
                upto = first_exc
                outs2 = outs[:upto]
                ok = b''.join(outs2).startswith(sink) if stdout_fault or k_eff >= upto else \
                    CW.sink_ok_under_fault(sink, outs2, k_eff, False)
            else:
                ok = CW.sink_ok_under_fault(sink, outs, k_eff, stdout_fault)
            if not ok and knobs['stdout_encoding'] != 'utf-8':
                # the other reading of "identical output" (text through a stdout that declares another encoding), as in the
                # fault-free rule: transcode what reached the sink and apply the very same acceptance rule
                try:
                    import codecs
                    text = codecs.getincrementaldecoder(knobs['stdout_encoding'])('strict').decode(sink, False)
                    sink2 = text.encode('utf-8')
                    if fault['kind'] == 'BADUTF8':
                        ok = sink2.startswith(b''.join(o or b'' for o in outs[:k_eff]))
                    elif any(o is None for o in outs):
                        ok = b''.join(outs[:first_exc]).startswith(sink2) if stdout_fault or k_eff >= first_exc else \
                            CW.sink_ok_under_fault(sink2, outs[:first_exc], k_eff, False)
                    else:
                        ok = CW.sink_ok_under_fault(sink2, outs, k_eff, stdout_fault)
                except (UnicodeError, LookupError):
                    ok = False
            if not ok:
                viol('cli_fault_' + fault['kind'], texts[k_eff], ['bytes-acceptable-under-fault', b''.join(o or b'' for o in outs).hex()],
                     ['bytes', sink.hex()], {'cli_outcome': list(out['outcome'])})
        return res


# ---------------------------------------------------------------------------------------------

def plan(tier):
    if tier == 'thorough':
        return {'n_free': int(os.environ.get('VERIF_C15_RUNS', 120000)), 'n_fault': int(os.environ.get('VERIF_C15_FAULT_RUNS', 60000)),
                'n_real': 96}
    return {'n_free': int(os.environ.get('VERIF_C15_RUNS', 5000)), 'n_fault': int(os.environ.get('VERIF_C15_FAULT_RUNS', 2500)), 'n_real': 24}


def scenario(seed, corp, batch, idx):
    rng = G.scenario_rng(seed, batch, idx)
    scn = G.gen_scenario(rng, corp, batch == 'fault')
    scn['batch'], scn['index'] = batch, idx
    return scn


def edge_texts():
    """Every special first-line / last-line case on its own, with and without a final newline."""
    out = []
    for t in G.LAST_LINE_CASES + G.FIRST_LINE_CASES:
        out += [t, t + '\n', 'intro\n\n' + t]
    for t in G.READING_SIDE_CASES:
        out += [t, t + '\n']
    out += G.context_texts()
    return [t for t in out if CW.in_domain(t)]


def corpus_scenarios(corp, tier='quick'):
    """Systematic part: every corpus text (and the size-threshold texts) x one renderer (rotating), single-file, all channels."""
    out = []
    edge = edge_texts()
    # corpus and size-threshold texts: one renderer each (rotating); edge texts: the two most line-sensitive renderers
    # (Markdown round trip, AST with line numbers) and a rotating third
    plan = [(t, None) for t in list(corp) + G.big_texts(corp, tier)]
    for t in edge:
        plan += [(t, 'Markdown'), (t, 'Ast'), (t, None)]
    for i, (t, fixed) in enumerate(plan):
        rid = fixed or W.BUNDLED_IDS[i % len(W.BUNDLED_IDS)]
        out.append({'R': rid, 'texts': [t], 'names': ['f0.md'], 'fault': None, 'seed': i, 'batch': 'corpus', 'index': i,
                    'knobs': {'bufsize': [4, 16, 8192][i % 3], 'read_chunk': [1, 3, 8192][i % 3], 'write_chunk': [1, 5, 8192][(i // 3) % 3],
                              'out_bufsize': [1, 64, 8192][(i // 9) % 3], 'locale': G.LOCALES[i % 4], 'stdout_encoding': G.STDOUT_ENCODINGS[i % 5],
                              'entry': ['cli.main', '__main__'][i % 2], 'omit_r': False}})
    return out


def output_census(corp):
    """Phase 0: the shape of the reference output of every corpus text under every bundled renderer (empty / no final
    newline / raises / ordinary), computed in pristine forks. Used to BUILD multi-file scenarios around the rare shapes:
    what a file prints without a final newline, or prints nothing, is exactly where per-file output handling can go wrong."""
    jobs = [(rid, i) for rid in W.BUNDLED_IDS for i in range(len(corp))]
    shapes = {}

    def fn(widx, nw, emit):
        mine = {}
        for j in range(widx, len(jobs), nw):
            rid, i = jobs[j]
            out = _fork(lambda: CW.lib_channel('str', corp[i], rid))
            if out[0] != 'ok':
                sh = 'raises'
            elif out[1] == '':
                sh = 'empty'
            elif not out[1].endswith('\n'):
                sh = 'no_final_newline'
            elif not out[1].isascii():
                sh = 'non_ascii'
            else:
                sh = 'ordinary'
            if sh != 'ordinary':
                mine[(rid, i)] = sh
        emit(('done', mine))

    def on_frame(i, frame):
        if frame[0] == 'done':
            shapes.update(frame[1])
    core.run_pool(core.n_workers(), fn, on_frame, 900)
    return shapes


_CENSUS = {}


def shape_scenarios(corp, tier):
    """Multi-file command-line scenarios built around texts whose output has a rare shape, in first / middle / last position."""
    shapes = output_census(corp)
    _CENSUS.clear()
    per = 12 if tier == 'thorough' else 4
    out = []
    idx = 0
    by = {}
    for (rid, i), sh in sorted(shapes.items()):
        by.setdefault((rid, sh), []).append(i)
        _CENSUS[sh] = _CENSUS.get(sh, 0) + 1
    ordinary = [t for t in corp if t.strip() and len(t) < 400][:50] or ['plain\n']
    for (rid, sh), idxs in sorted(by.items()):
        step = max(1, len(idxs) // per)
        for n, i in enumerate(idxs[::step][:per]):
            t = corp[i]
            o1, o2 = ordinary[(idx * 7) % len(ordinary)], ordinary[(idx * 11 + 3) % len(ordinary)]
            for texts in ([t, o1], [o1, t, o2], [t, t], [t, '', o1]):
                idx += 1
                out.append({'R': rid, 'texts': texts, 'names': ['f%d.md' % k for k in range(len(texts))], 'fault': None,
                            'seed': idx, 'batch': 'shapes', 'index': idx, 'cli_only': True, 'shape': sh,
                            'knobs': {'bufsize': [16, 8192][idx % 2], 'read_chunk': [3, 8192][idx % 2], 'write_chunk': [5, 8192][(idx // 2) % 2],
                                      'out_bufsize': [8, 8192][(idx // 4) % 2], 'locale': G.LOCALES[idx % 4],
                                      'stdout_encoding': 'utf-8', 'entry': ['cli.main', '__main__'][idx % 2], 'omit_r': False}})
    # size-threshold texts as NON-first files of one invocation: a small file before (and after) a large one, so that a small
    # output is still sitting in the stdout buffer when a large one arrives (and the other way round)
    small = [t for t in corp if t.strip() and len(t) < 200][:7] or ['small *text*\n']
    for i, big in enumerate(G.big_texts(corp, tier)):
        if len(big) > 300000 and i % 2:
            continue
        rid = W.BUNDLED_IDS[(i * 3 + 1) % len(W.BUNDLED_IDS)]
        for j, texts in enumerate(([small[i % len(small)], big], [small[(i + 1) % len(small)], big, small[(i + 2) % len(small)]], [big, small[i % len(small)]])):
            idx += 1
            out.append({'R': rid, 'texts': texts, 'names': ['f%d.md' % k for k in range(len(texts))], 'fault': None,
                        'seed': idx, 'batch': 'shapes', 'index': idx, 'cli_only': True, 'shape': 'small_then_large',
                        'knobs': {'bufsize': 8192, 'read_chunk': 8192, 'write_chunk': [8192, 4096, 64][j], 'out_bufsize': [8192, 8192, 512][(i + j) % 3],
                                  'locale': 'utf-8', 'stdout_encoding': 'utf-8', 'entry': ['cli.main', '__main__'][(i + j) % 2], 'omit_r': False}})
    # one invocation, several files: the output for file k must be what the library gives for text k ON ITS OWN, whatever
    # the files before it contained. File pairs that agree on something state could be keyed by but must render differently
    # (same-key families: every ordered pair under every renderer) and the same context-sensitive atom in two syntactic
    # positions (every ordered pair of positions per atom, renderer rotating; thorough: three renderers each).
    for fam in sorted(D.SAMEKEY_FAMILIES):
        docs = [d for d in D.SAMEKEY_FAMILIES[fam] if CW.in_domain(d)]
        for a in range(len(docs)):
            for b in range(len(docs)):
                if a == b:
                    continue
                for rid in W.BUNDLED_IDS:
                    idx += 1
                    out.append({'R': rid, 'texts': [docs[a], docs[b]], 'names': ['f0.md', 'f1.md'], 'fault': None,
                                'seed': idx, 'batch': 'shapes', 'index': idx, 'cli_only': True, 'shape': 'cross_file',
                                'knobs': {'bufsize': 8192, 'read_chunk': 8192, 'write_chunk': 8192, 'out_bufsize': [8192, 64][idx % 2],
                                          'locale': 'utf-8', 'stdout_encoding': 'utf-8', 'entry': ['cli.main', '__main__'][idx % 2], 'omit_r': False}})
    positions = sorted(D.ATOM_POSITIONS)
    n_r = 3 if tier == 'thorough' else 1
    for ai in range(len(D.ATOMS)):
        for pa in positions:
            for pb in positions:
                if pa == pb:
                    continue
                da, db = D.ATOM_PROBES['atom%d_%s' % (ai, pa)], D.ATOM_PROBES['atom%d_%s' % (ai, pb)]
                if not (CW.in_domain(da) and CW.in_domain(db)):
                    continue
                for r in range(n_r):
                    idx += 1
                    rid = W.BUNDLED_IDS[(idx + r * 3) % len(W.BUNDLED_IDS)]
                    out.append({'R': rid, 'texts': [da, db], 'names': ['f0.md', 'f1.md'], 'fault': None,
                                'seed': idx, 'batch': 'shapes', 'index': idx, 'cli_only': True, 'shape': 'cross_file',
                                'knobs': {'bufsize': 8192, 'read_chunk': 8192, 'write_chunk': 8192, 'out_bufsize': 8192,
                                          'locale': 'utf-8', 'stdout_encoding': 'utf-8', 'entry': ['cli.main', '__main__'][idx % 2], 'omit_r': False}})
    # every dotted path under which -r reaches each renderer class (old aliases, package-level re-exports, names imported
    # into other modules): one and two files, both entry points, each argv shape in turn
    for rid in W.BUNDLED_IDS:
        sp = CW.spellings(rid)
        for k in range(1, len(sp)):
            for j, texts in enumerate(([ordinary[(idx * 5) % len(ordinary)]], [ordinary[(idx * 3 + 1) % len(ordinary)], 'caf\u00e9 *x*\n'])):
                idx += 1
                out.append({'R': rid, 'texts': texts, 'names': ['f%d.md' % n for n in range(len(texts))], 'fault': None,
                            'seed': idx, 'batch': 'shapes', 'index': idx, 'cli_only': True, 'shape': 'r_spelling',
                            'knobs': {'bufsize': 8192, 'read_chunk': 8192, 'write_chunk': [8192, 5][j], 'out_bufsize': [8192, 8][j],
                                      'locale': 'utf-8', 'stdout_encoding': 'utf-8', 'entry': ['cli.main', '__main__'][(k + j) % 2],
                                      'omit_r': False, 'r_spelling': k, 'argv_shape': CW.ARGV_SHAPES[(k + j) % len(CW.ARGV_SHAPES)]}})
    return out


def worker_main(tier, seed, pl, corp, corpus_scn):
    n_c = len(corpus_scn)
    total = n_c + pl['n_free'] + pl['n_fault']

    def fn(widx, nw, emit):
        judge = Judge()
        agg = {'runs': 0, 'compared': 0, 'stats': {}, 'fired': {}, 'digests': set(), 'nontrivial': 0, 'violations': 0,
               'by_batch': {}, 'samples': {}, 'seam_lost': 0, 'texts': set(), 'multi_file': 0, 'reach': {}}
        for g in range(widx, total, nw):
            if g < n_c:
                scn = corpus_scn[g]
            elif g < n_c + pl['n_free']:
                scn = scenario(seed, corp, 'free', g - n_c)
            else:
                scn = scenario(seed, corp, 'fault', g - n_c - pl['n_free'])
            res = judge.run(scn)
            agg['runs'] += 1
            if agg['runs'] % 500 == 0:
                emit(('progress', 500))
            agg['compared'] += res['compared']
            bb = agg['by_batch'].setdefault(scn['batch'], {'runs': 0, 'compared': 0, 'violations': 0})
            bb['runs'] += 1
            bb['compared'] += res['compared']
            for k, n in res['stats'].items():
                agg['stats'][k] = agg['stats'].get(k, 0) + n
            if res['fault_fired']:
                kind = scn['fault']['kind']
                agg['fired'][kind] = agg['fired'].get(kind, 0) + 1
            if res.get('seam_lost'):
                agg['seam_lost'] += 1
            for r in res.get('reach', []):
                agg['reach'][r] = agg['reach'].get(r, 0) + 1
            for t in scn['texts']:
                agg['texts'].add(_sha(t))
            if len(scn['texts']) > 1:
                agg['multi_file'] += 1
            digest = hashlib.sha256('\n'.join(res['lines']).encode()).hexdigest()[:16]
            nontrivial = res['fault_fired'] or len(scn['texts']) > 1 or any(t.count('\n') >= 2 or not t.isascii() for t in scn['texts'])
            if nontrivial:
                agg['nontrivial'] += 1
                agg['digests'].add(digest)
                if scn['batch'] not in agg['samples'] and len(json.dumps(scn)) < 1500:
                    agg['samples'][scn['batch']] = {'scenario': scn, 'digest': digest, 'comparisons': res['compared'],
                                                    'fault_fired': res['fault_fired'], 'device_stats': res['stats']}
            if res['violation'] is not None:
                agg['violations'] += 1
                bb['violations'] += 1
                v = res['violation']
                v.update({'seed': seed, 'tier': tier, 'batch': scn['batch'], 'index': scn['index']})
                if agg['violations'] <= 30:
                    emit(('violation', v))
        agg['env_keys'] = sorted(judge.env_keys)
        emit(('done', agg))
    return fn


def digests(seed, tier, indices, nw=None):
    corp = G.corpus()
    out = {}

    def fn(widx, nworkers, emit):
        judge = Judge()
        mine = {}
        for j, i in enumerate(indices):
            if j % nworkers != widx:
                continue
            batch = 'free' if i % 2 == 0 else 'fault'
            res = judge.run(scenario(seed, corp, batch, i))
            mine[i] = hashlib.sha256('\n'.join(res['lines']).encode()).hexdigest() + ('!' if res['violation'] else '')
        emit(('done', mine))

    def on_frame(i, frame):
        if frame[0] == 'done':
            out.update(frame[1])
    core.run_pool(nw or core.n_workers(), fn, on_frame, 1800)
    return [out[i] for i in indices]


# ---------------------------------------------------------------------------------------------
# shrinking

def minimise(judge, viol, max_evals=160):
    klass = viol['klass']
    budget = [max_evals]

    def fails(scn):
        if budget[0] <= 0:
            return False
        budget[0] -= 1
        try:
            r = judge.run(scn)
        except core.HarnessError:
            return False
        return r['violation'] is not None and r['violation']['klass'] == klass
    scn = copy.deepcopy(viol['scenario'])
    if not fails(scn):
        return viol, False
    scn['only'] = klass
    # fewer files
    i = len(scn['texts']) - 1
    while i >= 0 and len(scn['texts']) > 1:
        c = copy.deepcopy(scn)
        if c.get('fault') and c['fault']['file_name'] == c['names'][i] and c['names'].count(c['names'][i]) == 1:
            i -= 1
            continue
        del c['texts'][i], c['names'][i]
        if fails(c):
            scn = c
        i -= 1
    # simplest knobs
    simple = {'bufsize': 8192, 'read_chunk': 8192, 'write_chunk': 8192, 'out_bufsize': 8192, 'locale': 'utf-8',
              'stdout_encoding': 'utf-8', 'entry': 'cli.main', 'omit_r': False}
    for k, v in simple.items():
        if scn['knobs'].get(k) != v:
            c = copy.deepcopy(scn)
            c['knobs'][k] = v
            if fails(c):
                scn = c
    # lines, then characters, of each text
    for ti in range(len(scn['texts'])):
        for unit in ('lines', 'chars'):
            t = scn['texts'][ti]
            items = t.splitlines(keepends=True) if unit == 'lines' else list(t)
            if len(items) < 2 or (unit == 'chars' and len(items) > 200):
                continue

            def with_items(its, ti=ti):
                c = copy.deepcopy(scn)
                c['texts'][ti] = ''.join(its)
                return c
            items = shrink_mod.ddmin(items, lambda its: CW.in_domain(''.join(its)) and fails(with_items(its)), budget)
            scn = with_items(items)
    budget[0] = 5
    scn.pop('only', None)
    r = judge.run(scn)
    if r['violation'] is None or r['violation']['klass'] != klass:
        return viol, True          # keep the unshrunk record rather than a candidate that no longer fails in full
    v = dict(r['violation'])
    for k in ('seed', 'tier', 'batch', 'index'):
        v[k] = viol.get(k)
    v['shrink_evals'] = max_evals - max(budget[0], 0)
    return v, True


# ---------------------------------------------------------------------------------------------
# fidelity of the stubs: the same scenario through a real `python -m mistletoe` with real files

# (extra environment, locale encoding, stdout encoding, interpreter flags, stdin)
REAL_ENVS = [
    ({}, 'utf-8', 'utf-8', [], 'devnull'),
    ({'LC_ALL': 'C', 'LANG': 'C', 'PYTHONCOERCECLOCALE': '0', 'PYTHONUTF8': '0'}, 'ascii', 'ascii', [], 'devnull'),
    ({'PYTHONIOENCODING': 'latin-1'}, 'utf-8', 'latin-1', [], 'devnull'),
    ({'COLUMNS': '20', 'LINES': '5', 'TERM': 'dumb', 'NO_COLOR': '1'}, 'utf-8', 'utf-8', ['-O'], 'closed'),
    ({'HOME': '/nonexistent', 'TZ': 'Pacific/Kiritimati', 'LANG': 'tr_TR.UTF-8'}, 'utf-8', 'utf-8', ['-X', 'utf8', '-u'], 'pipe'),   # -u: unbuffered stdout, sys.stdout.buffer is the raw FileIO
    ({'PYTHONWARNINGS': 'ignore', 'PYTHONDONTWRITEBYTECODE': '1'}, 'utf-8', 'utf-8', ['-OO', '-S'], 'devnull'),
]


def real_runs(judge, seed, corp, n):
    """Returns (validated, sim-vs-real mismatches, violations found by real runs when the seams are lost)"""
    validated = 0
    bad = []
    real_viols = []
    procs = []
    tmp = tempfile.mkdtemp(prefix='c15-real-')
    try:
        for i in range(n):
            scn = scenario(seed, corp, 'real', i)
            scn['fault'] = None
            envx, loc, outenc, pyflags, stdin_kind = REAL_ENVS[i % len(REAL_ENVS)]
            scn['knobs']['locale'], scn['knobs']['stdout_encoding'] = loc, outenc
            scn['knobs']['entry'] = '__main__'
            scn['knobs']['tty'] = False          # the real subprocess writes to a pipe
            d = os.path.join(tmp, str(i), 'w')      # one level down so that a '../x.md' name stays inside the scratch directory
            os.makedirs(d)
            for nme, t in zip(scn['names'], scn['texts']):
                path = os.path.normpath(os.path.join(d, nme))
                os.makedirs(os.path.dirname(path), exist_ok=True)
                with open(path, 'wb') as f:
                    f.write(t.encode('utf-8'))
            env = {k: v for k, v in os.environ.items() if k not in ('LC_ALL', 'LANG', 'LC_CTYPE', 'PYTHONIOENCODING', 'PYTHONUTF8', 'PYTHONUNBUFFERED')}
            env.update(envx)
            env['PYTHONPATH'] = core.REPO
            env['PYTHONDONTWRITEBYTECODE'] = '1'
            scn['knobs']['omit_r'] = False
            if '-S' in pyflags and scn['R'] == 'Pygments':
                pyflags = [f for f in pyflags if f != '-S']         # without site-packages pygments cannot be imported
            argv = [sys.executable] + pyflags + ['-m', 'mistletoe'] + CW.build_argv(scn['R'], scn['names'], scn['knobs'])
            stdin = {'devnull': subprocess.DEVNULL, 'pipe': subprocess.PIPE, 'closed': None}[stdin_kind]
            kw = {'close_fds': True}
            if stdin_kind == 'closed':
                kw['preexec_fn'] = lambda: os.close(0)
            p = subprocess.Popen(argv, cwd=d, env=env, stdin=stdin, stdout=subprocess.PIPE, stderr=subprocess.PIPE, **kw)
            procs.append((scn, p))
            if len(procs) >= 16 or i == n - 1:
                for scn2, p2 in procs:
                    try:
                        so, se = p2.communicate(timeout=120)
                    except subprocess.TimeoutExpired:
                        p2.kill()
                        raise core.HarnessError('real mistletoe subprocess timed out')
                    files = {nm: t.encode('utf-8') for nm, t in zip(scn2['names'], scn2['texts'])}
                    cscn = {'R': scn2['R'], 'files': [[nm, files[nm]] for nm in files], 'argv_files': scn2['names'],
                            'knobs': scn2['knobs'], 'fault': None, 'seed': scn2['seed']}
                    def judge_real():
                        """The REAL run against the library reference, strictly (fault-free scenario, real files, real tool):
                        appends a violation and returns True when the real tool's output is not the reference."""
                        by_name = {}
                        for nm, t in zip(scn2['names'], scn2['texts']):
                            by_name[nm] = t
                        refs = [judge.ref(scn2['R'], by_name[nm]) for nm in scn2['names']]
                        if not all(r[0] == 'ok' for r in refs):
                            return False
                        expect = ''.join(r[1] for r in refs)
                        good = so == expect.encode('utf-8')
                        if not good:
                            try:
                                good = so.decode(scn2['knobs']['stdout_encoding']) == expect
                            except (UnicodeDecodeError, LookupError):
                                good = False
                        if good and p2.returncode == 0:
                            return False
                        real_viols.append({'property': PROP, 'failing': {'kind': 'CHANNEL', 'channel': 'cli_real', 'R': scn2['R'],
                                                                           'text_sha': _sha(scn2['texts'][0]), 'text': scn2['texts'][0]},
                                           'expected': ['bytes', expect.encode('utf-8').hex()], 'actual': ['bytes', so.hex()],
                                           'klass': 'cli_real', 'scenario': scn2, 'seed': seed, 'tier': None, 'batch': 'real', 'index': scn2['index'],
                                           'detail': {'returncode': p2.returncode, 'stderr': se.decode('utf-8', 'replace')[-300:]}})
                        return True
                    if not judge.check_seam():
                        # The tool does not go through the seams (it reads or writes some other way): no simulated run to
                        # compare with. Fall back to judging the REAL run against the library reference, strictly.
                        validated += 1
                        judge_real()
                        continue
                    sim = _fork(lambda: CW.cli_channel(cscn))
                    validated += 1
                    if not isinstance(sim, dict) or sim['sink'] != so or (sim['outcome'][0] == 'ok') != (p2.returncode == 0):
                        # Simulated and real runs differ. If the REAL run itself contradicts the library reference, that is a
                        # violation shown by the real tool on real files (reported as such); only a real run that is right
                        # next to a simulated one that differs means the stub misrepresents something (harness error).
                        if judge_real():
                            continue
                        bad.append({'scenario': scn2, 'real_stdout': so.hex(), 'real_rc': p2.returncode, 'real_stderr': se.decode('utf-8', 'replace')[-400:],
                                    'sim': {'sink': sim['sink'].hex(), 'outcome': list(sim['outcome'])} if isinstance(sim, dict) else list(sim)})
                procs = []
    finally:
        import shutil
        shutil.rmtree(tmp, ignore_errors=True)
    return validated, bad, real_viols


def real_replay(judge, scn):
    """Re-run one scenario through the real tool (default environment) and judge it against the library reference."""
    tmp = tempfile.mkdtemp(prefix='c15-replay-')
    try:
        d = os.path.join(tmp, 'w')
        os.makedirs(d)
        by_name = {}
        for nm, t in zip(scn['names'], scn['texts']):
            by_name[nm] = t
        for nm, t in by_name.items():
            path = os.path.normpath(os.path.join(d, nm))
            os.makedirs(os.path.dirname(path), exist_ok=True)
            with open(path, 'wb') as f:
                f.write(t.encode('utf-8'))
        env = dict(os.environ, PYTHONPATH=core.REPO, PYTHONDONTWRITEBYTECODE='1')
        env.pop('PYTHONUNBUFFERED', None)
        knobs = dict(scn['knobs'], omit_r=False)
        argv = [sys.executable, '-m', 'mistletoe'] + CW.build_argv(scn['R'], scn['names'], knobs)
        p = subprocess.run(argv, cwd=d, env=env, stdin=subprocess.DEVNULL, stdout=subprocess.PIPE, stderr=subprocess.PIPE, timeout=300)
        refs = [judge.ref(scn['R'], by_name[nm]) for nm in scn['names']]
        expect = ''.join(r[1] for r in refs if r[0] == 'ok').encode('utf-8')
        return p.stdout == expect and p.returncode == 0, p.stdout
    finally:
        import shutil
        shutil.rmtree(tmp, ignore_errors=True)


def selftests(seed, tier, full=False):
    from . import selftest
    rule = selftest.c15_sink_rule()
    n = (2000 if tier == 'thorough' else 200) if full else 48
    idx = list(range(n))
    a = digests(seed, 'quick', idx, 16)
    b = digests(seed, 'quick', idx, 3)
    procs = [selftest._fresh(['helper', 'c15-digests'], {'seed': seed, 'tier': 'quick', 'n': n}, hs) for hs in (0, 4242)]
    c, d = selftest._collect(procs, 1800)
    bad = [i for i in idx if not (a[i] == b[i] == c[i] == d[i])]
    if bad:
        raise core.HarnessError('determinism self-test failed for C15 scenario indices %s (seed %d)' % (bad[:10], seed))
    return {'fault_acceptance_rule_table': rule, 'determinism': {'seeds': n, 'executions_each': 4, 'worker_counts': [16, 3], 'fresh_interpreter_hashseeds': [0, 4242], 'diverged': 0}}


def run_check(tier, seed):
    t0 = time.time()
    pl = plan(tier)
    corp = G.corpus()
    corpus_scn = corpus_scenarios(corp, tier) + shape_scenarios(corp, tier)
    total = {'runs': 0, 'compared': 0, 'stats': {}, 'fired': {}, 'digests': set(), 'nontrivial': 0, 'violations': 0,
             'by_batch': {}, 'samples': {}, 'seam_lost': 0, 'texts': set(), 'multi_file': 0, 'reach': {}}
    viols = []

    prog = {'n': 0, 't': time.time()}
    n_total = len(corpus_scn) + pl['n_free'] + pl['n_fault']

    def on_frame(i, frame):
        if frame[0] == 'progress':
            prog['n'] += frame[1]
            if time.time() - prog['t'] > 120:       # wall clock used for the progress line only, never for a decision
                prog['t'] = time.time()
                print('progress: %d/%d scenarios, %d violations so far' % (prog['n'], n_total, len(viols)))
                sys.stdout.flush()
        elif frame[0] == 'violation':
            viols.append(frame[1])
        elif frame[0] == 'done':
            a = frame[1]
            for k in ('runs', 'compared', 'nontrivial', 'violations', 'seam_lost', 'multi_file'):
                total[k] += a[k]
            for k in ('digests', 'texts'):
                total[k] |= a[k]
            total.setdefault('env_keys', set()).update(a.get('env_keys') or [])
            for k in ('stats', 'fired', 'reach'):
                for kk, n in a[k].items():
                    total[k][kk] = total[k].get(kk, 0) + n
            for b, bb in a['by_batch'].items():
                t = total['by_batch'].setdefault(b, {'runs': 0, 'compared': 0, 'violations': 0})
                for kk in t:
                    t[kk] += bb[kk]
            for b, s in a['samples'].items():
                if b not in total['samples'] or s['scenario']['index'] < total['samples'][b]['scenario']['index']:
                    total['samples'][b] = s
    core.run_pool(core.n_workers(), worker_main(tier, seed, pl, corp, corpus_scn), on_frame, 3 * 3600 if tier == 'thorough' else 900)
    t_run = time.time() - t0
    judge = Judge()
    validated, bad, real_viols = real_runs(judge, seed, corp, pl['n_real'])
    viols.extend(real_viols)
    t_real = time.time() - t0 - t_run
    for b in bad:
        # the simulation and the real tool disagree: the stub misrepresents something -> harness error, never a verdict
        raise core.HarnessError('simulated and real command-line runs differ: %s' % json.dumps(b)[:1500])
    known = findings_mod.load()
    by_class = {}
    for v in sorted(viols, key=lambda v: (len(json.dumps(v['scenario'])), v['batch'], v['index'])):
        by_class.setdefault(v['klass'], []).append(v)
    reported, known_lines = [], []
    MAX_CLASSES = 8      # one minimised replay per class; further classes are counted, not shrunk
    ranked = sorted(by_class.items(), key=lambda kv: (-len(kv[1]), kv[0]))
    if len(ranked) > MAX_CLASSES:
        print('note: %d violation classes seen, reporting the %d most frequent' % (len(ranked), MAX_CLASSES))
    for klass, vs in ranked[:MAX_CLASSES]:
        if klass == 'cli_real':
            v, ok = vs[0], True          # found by a real subprocess; replayed by re-running the real tool, not shrunk
        else:
            v, ok = minimise(judge, vs[0])
        if not ok:
            raise core.HarnessError('C15 violation did not reproduce when re-executed: batch=%s index=%s' % (vs[0]['batch'], vs[0]['index']))
        f = findings_mod.match_open(v, known)
        if f is not None:
            known_lines.append('KNOWN-FINDING: property=%s %s %s' % (PROP, f['id'], f.get('what_fails', '')))
            continue
        path = core.write_replay(PROP, v)
        reported.append((v, path, len(vs)))
    for line in sorted(set(known_lines)):
        print(line)
    for v, path, n in reported:
        print('VIOLATION property=%s replay=%s' % (PROP, path))
        print('  channel=%s renderer=%s count_in_run=%d text=%r expected=%s actual=%s' % (
            v['failing']['channel'], v['failing']['R'], n, (v['failing'].get('text') or '')[:80], json.dumps(v['expected'])[:200],
            json.dumps(v['actual'])[:200]))
    return {'plan': pl, 'total': total, 'reported': reported, 'known_lines': known_lines, 't_run': t_run, 't_real': t_real,
            'wall': time.time() - t0, 'validated': validated, 'corpus': len(corp)}


def evidence(tier, seed, out, st):
    total, pl = out['total'], out['plan']
    doc = {
        'property_id': PROP, 'tier': tier, 'seed': seed, 'level': 'exploration',
        'coverage': {
            'evaluations': total['compared'],
            'distinct_nontrivial': len(total['digests']),
            'rule': 'A case is one scenario: a renderer, 1-5 texts from the property\'s domain (only \\n terminates lines), seeded device knobs '
                    '(buffer sizes, short-read/short-write chunk sizes, locale and stdout encodings, entry point) and at most one injected I/O '
                    'fault. evaluations counts channel outcomes compared with the str-channel reference (each channel evaluated in its own fork '
                    'of a pristine process). Non-trivial: a fault actually fired, or several files, or a text with >= 2 line ends or non-ASCII '
                    'characters; distinct = distinct digests over (channel, text digest, outcome digest) lines among those.',
            'samples': [total['samples'][b] for b in sorted(total['samples'])][:4],
            'exhaustive': False,
            'scenarios': total['runs'],
            'scenarios_per_hour': int(total['runs'] / max(out['t_run'], 1e-6) * 3600),
            'batches': total['by_batch'],
            'distinct_texts': len(total['texts']),
            'corpus_texts_in_domain': out['corpus'],
            'output_shape_census': dict(_CENSUS),
            'rare_conditions_reached': total['reach'],
            'env_vars_consulted_by_tool': sorted(total.get('env_keys') or []),
            'multi_file_scenarios': total['multi_file'],
            'faults_fired': total['fired'],
            'device_events': total['stats'],
            'traces_validated_against_impl': out['validated'],
            'sim_fs_seam': 'lost' if total['seam_lost'] else 'ok',
            'simulated_time': 'not applicable - the system reads no clock; progress is counted in operations',
            'components': {
                'real': ['mistletoe library, mistletoe.cli, mistletoe.__main__ (imported from %s)' % core.REPO, 'argparse, importlib',
                         'io.TextIOWrapper / io.BufferedReader / io.BufferedWriter above the raw layer', 'tempfile-backed real files (realfile channel)',
                         'real `python -m mistletoe` subprocesses for the fidelity sample'],
                'stub': ['raw byte device (SimRawFile)', 'directory (SimFS, bound to mistletoe.cli.open)', 'stdout raw sink (SimRawSink)',
                         'locale encoding used when open() is called without encoding='],
            },
            'selftests': st,
            'known_findings_printed': len(set(out['known_lines'])),
        },
        'assumptions': [
            'mistletoe.cli resolves `open` and `sys` through its module globals (checked by a canary each run; if lost the CLI part is skipped and reported as sim_fs_seam: lost)',
            'the simulated CLI run equals a real `python -m mistletoe` run (checked on a sample each run against real subprocesses under three real locale/encoding environments)',
            'POSIX newline conventions',
        ],
        'wall_s': round(out['wall'], 2),
        'violations': len(out['reported']),
    }
    return core.write_evidence(PROP, doc)
