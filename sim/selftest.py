"""
Self-tests that every check runs first (quick size) and that `./check selftest` runs at full size:
 1. determinism: the same derived seeds give byte-identical event-log digests when executed twice, at different
    worker counts, and in fresh interpreters under different PYTHONHASHSEED values;
 2. oracle fidelity: the forked-pristine oracle equals a brand-new interpreter evaluating the same operation.
Any failure is a harness error (exit 2), never a VIOLATION.
"""
import json
import os
import random
import subprocess
import sys

from . import core

CHECK = os.path.join(core.VERIF_ROOT, 'check')
PY = sys.executable


def _fresh(args, stdin_obj, hashseed):
    env = dict(os.environ)
    env['PYTHONHASHSEED'] = str(hashseed)
    env['PYTHONDONTWRITEBYTECODE'] = '1'
    return subprocess.Popen([PY, CHECK] + args, stdin=subprocess.PIPE, stdout=subprocess.PIPE, stderr=subprocess.PIPE,
                            env=env, text=True), json.dumps(stdin_obj)


def _collect(procs, timeout=300):
    outs = []
    for p, data in procs:
        try:
            so, se = p.communicate(data, timeout=timeout)
        except subprocess.TimeoutExpired:
            p.kill()
            raise core.HarnessError('fresh-interpreter helper timed out')
        if p.returncode != 0:
            raise core.HarnessError('fresh-interpreter helper failed (%d): %s' % (p.returncode, se[-800:]))
        outs.append(json.loads(so.strip().splitlines()[-1]))
    return outs


def c11_digests(seed, tier, indices, nw=None):
    """Digest of each random-batch run (faulting and fault-free alternate), computed through the normal pool."""
    from . import c11_check as C, c11_gen as G
    out = {}

    def fn(widx, nworkers, emit):
        judge = C.Judge()
        mine = {}
        for j, i in enumerate(indices):
            if j % nworkers != widx:
                continue
            batch = 'rand' if i % 2 == 0 else 'randff'
            h = G.random_history(G.history_rng(seed, batch, i), tier, batch == 'randff')
            res = judge.run(h)
            mine[i] = res['digest'] + ('!' if res['violation'] else '')
        emit(('done', mine))

    def on_frame(i, frame):
        if frame[0] == 'done':
            out.update(frame[1])
    core.run_pool(nw or core.n_workers(), fn, on_frame, 1800)
    return [out[i] for i in indices]


def c11_determinism(seed, tier, n):
    indices = list(range(n))
    procs = [_fresh(['helper', 'c11-digests'], {'seed': seed, 'tier': tier, 'n': n}, hs) for hs in (0, 4242)]
    a = c11_digests(seed, tier, indices, 16)
    b = c11_digests(seed, tier, indices, 4)
    c = c11_digests(seed, tier, indices[:48], 1) + a[48:]
    d, e = _collect(procs, 1800)
    bad = [i for i in indices if not (a[i] == b[i] == c[i] == d[i] == e[i])]
    if bad:
        raise core.HarnessError('determinism self-test failed for C11 run indices %s (seed %d)' % (bad[:10], seed))
    return {'seeds': n, 'executions_each': 5, 'worker_counts': [16, 4, 1], 'single_worker_prefix': 48, 'fresh_interpreter_hashseeds': [0, 4242], 'diverged': 0}


def c11_token_table():
    """The generator's table of token-list lengths per renderer configuration must match the tree (it decides which
    add_token positions are 'every index'). Measured in forks; a mismatch is a harness error."""
    from . import c11_world as W, c11_gen as G
    from mistletoe import block_token, span_token
    n = 0
    for rid in W.RENDERER_IDS:
        for opts in W.OPTIONS[rid]:
            def fn(emit, rid=rid, opts=opts):
                with W.renderer_class(rid)(**opts):
                    emit((len(block_token._token_types), len(span_token._token_types)))
            frames, status = core.fork_stream(fn, 20)
            if status != 'ok' or tuple(frames[0]) != tuple(G._extras(rid, opts)):
                raise core.HarnessError('token-list table out of date for %s %s: tree has %s, generator assumes %s'
                                        % (rid, opts, frames[:1], G._extras(rid, opts)))
            n += 1
    return {'configs': n, 'mismatches': 0}


def c11_oracle_fidelity(seed, n):
    from . import c11_check as C, c11_docs as D, c11_world as W, c11_gen as G
    rng = random.Random(core.derive(seed, 'C11', 'oracle-selftest'))
    names = sorted(D.PROBES)
    keys = []
    for _ in range(n):
        rid = W.RENDERER_IDS[rng.randrange(len(W.RENDERER_IDS))]
        opts = W.OPTIONS[rid][rng.randrange(len(W.OPTIONS[rid]))]
        doc = D.PROBES[names[rng.randrange(len(names))]]
        x = rng.random()
        if x < 0.5:
            steps = []
            if rng.random() < 0.4:
                _, ns = G._extras(rid, opts)
                steps.append({'k': 'ADD', 'tok': 'Curly', 'pos': rng.randint(0, ns - 1)})
                doc = D.PROBES['custom']
            keys.append([{'k': 'CTX', 'R': rid, 'opts': opts, 'exit': 'normal', 'steps': steps + [{'k': 'RENDER', 'doc': doc}]}])
        elif x < 0.85:
            keys.append([{'k': 'MD', 'R': rid, 'opts': {}, 'doc': doc}])
        else:
            keys.append([{'k': 'BARE', 'doc': doc}])
    judge = C.Judge()
    forked = []
    for oh in keys:
        frames, status = core.fork_stream(lambda e: W.execute(oh, e), 20)
        if status != 'ok':
            raise core.HarnessError('oracle self-test: forked evaluation failed: ' + status)
        forked.append([[f['b'], f['s'], f['kind'], list(f['outcome'])] for f in frames])
    fresh = []
    for i in range(0, len(keys), 16):
        procs = [_fresh(['helper', 'c11-eval'], {'history': oh}, 1000 + i + j) for j, oh in enumerate(keys[i:i + 16])]
        fresh.extend(_collect(procs))
    bad = [i for i in range(len(keys)) if json.loads(json.dumps(forked[i])) != fresh[i]]
    if bad:
        raise core.HarnessError('oracle self-test: forked-pristine and fresh-interpreter outcomes differ for %s'
                                % json.dumps(keys[bad[0]])[:500])
    return {'keys': n, 'mismatches': 0}


def c15_sink_rule():
    """Table test of the acceptance rule under faults (a pure function): what must be accepted and what must not."""
    from .c15_world import sink_ok_under_fault as ok
    outs = [b'AAA\n', b'BBBB\n', b'CC\n']
    cases = [
        (b'', 0, False, True), (b'AAA\n', 1, False, True), (b'AA', 1, False, False), (b'AAA\nBB', 1, False, True),
        (b'AAA\nBX', 1, False, False), (b'AAA\nCC\n', 1, False, True), (b'AAA\nBBCC\n', 1, False, True),
        (b'AAA\nC', 1, False, False), (b'CC\nAAA\n', 1, False, False), (b'AAA\nBB', 1, True, True),
        (b'AAA\nCC\n', 1, True, False), (b'AAA\nBBBB\nCC\n', 2, False, True), (b'AAA\nBBBB\nCC\nX', 2, False, False),
    ]
    bad = [c for c in cases if ok(c[0], outs, c[1], c[2]) != c[3]]
    same = [b'X\n'] * 3
    if bad or not ok(b'X\nX\n', same, 1, False) or ok(b'X\nX\nX\nX\n', same, 1, False):
        raise core.HarnessError('acceptance rule under faults is broken: %r' % (bad,))
    return {'cases': len(cases) + 2, 'wrong': 0}


def helper(argv):
    """Runs inside a fresh interpreter started by the functions above."""
    what = argv[0]
    req = json.loads(sys.stdin.read())
    if what == 'c11-digests':
        out = c11_digests(req['seed'], req['tier'], list(range(req['n'])), 8)
    elif what == 'c11-eval':
        from . import c11_world as W
        recs = []
        W.execute(req['history'], recs.append)      # in-process: this interpreter has never used mistletoe before
        out = [[f['b'], f['s'], f['kind'], list(f['outcome'])] for f in recs]
    elif what == 'c15-digests':
        from . import c15_check
        out = c15_check.digests(req['seed'], req['tier'], list(range(req['n'])), 8)
    elif what == 'c15-eval':
        from . import c15_world
        out = c15_world.eval_in_process(req)
    else:
        raise SystemExit('unknown helper ' + what)
    print(json.dumps(out))
    return 0


def main(tier, seed):
    n_det, n_or = (5000, 400) if tier == 'thorough' else (200, 40)
    r1 = c11_determinism(seed, tier, n_det)
    print('selftest C11 determinism: ok %s' % json.dumps(r1))
    r2 = c11_oracle_fidelity(seed, n_or)
    print('selftest C11 oracle fidelity: ok %s' % json.dumps(r2))
    try:
        from . import c15_check
    except ImportError:
        return 0
    r3 = c15_check.selftests(seed, tier, full=True)
    print('selftest C15: ok %s' % json.dumps(r3))
    return 0
