"""
Shared simulator core: seeds, framing, fork helpers, worker pool, evidence, exit codes.

Nothing in here touches mistletoe's behaviour; `import_repo()` only *imports* it
(from VERIF_REPO, default /repo) so that every forked child starts from the state a
fresh interpreter has right after `import mistletoe`.
"""
import hashlib
import json
import os
import pickle
import re
import select
import signal
import struct
import sys
import time
import traceback

VERIF_ROOT = os.path.dirname(os.path.dirname(os.path.abspath(__file__)))
REPO = os.environ.get('VERIF_REPO', '/repo')
EXIT_OK, EXIT_VIOLATION, EXIT_HARNESS = 0, 1, 2
DEFAULT_SEED = 20261004


class HarnessError(Exception):
    """Anything that is the simulator's fault or the environment's: maps to exit 2, never to VIOLATION."""


def get_seed():
    v = os.environ.get('VERIF_SEED', '').strip()
    if not v:
        return DEFAULT_SEED
    try:
        return int(v)
    except ValueError:
        # any string is accepted as a seed; it is folded into an integer deterministically
        return int.from_bytes(hashlib.sha256(v.encode()).digest()[:8], 'big')


def derive(seed, prop, *parts):
    """The one-integer rule: every random stream is derived from (VERIF_SEED, property, run index...)."""
    key = ':'.join([str(seed), prop] + [str(p) for p in parts])
    return int.from_bytes(hashlib.sha256(key.encode()).digest()[:8], 'big')


def sha(obj):
    """Stable digest of a JSON-able object."""
    return hashlib.sha256(json.dumps(obj, sort_keys=True, ensure_ascii=True).encode()).hexdigest()


def import_repo():
    """Import mistletoe and every bundled renderer module from REPO; never call into it."""
    if REPO not in sys.path:
        sys.path.insert(0, REPO)
    import importlib
    import mistletoe
    real = os.path.realpath(mistletoe.__file__)
    if not real.startswith(os.path.realpath(REPO) + os.sep):
        raise HarnessError('mistletoe imported from %s, expected under %s' % (real, REPO))
    for name in ('mistletoe.html_renderer', 'mistletoe.latex_renderer', 'mistletoe.markdown_renderer',
                 'mistletoe.ast_renderer', 'mistletoe.contrib.toc_renderer', 'mistletoe.contrib.github_wiki',
                 'mistletoe.contrib.mathjax', 'mistletoe.contrib.pygments_renderer',
                 'mistletoe.contrib.jira_renderer', 'mistletoe.contrib.xwiki20_renderer',
                 'mistletoe.contrib.scheme', 'mistletoe.cli', 'mistletoe.__main__'):
        importlib.import_module(name)
    _preload_pygments()
    return mistletoe


def _preload_pygments():
    """Load every pygments lexer module once in the template process (guess_lexer imports them all lazily, ~45 ms per
    forked child otherwise). This calls pygments only, never mistletoe, so the template stays pristine."""
    try:
        from pygments.lexers import _iter_lexerclasses, guess_lexer, get_lexer_by_name
        list(_iter_lexerclasses())
        guess_lexer('x = 1\n')
        get_lexer_by_name('python')
    except Exception:       # pygments absent or changed: only slower, not wrong
        pass


_ADDR = re.compile(r'0x[0-9a-fA-F]+')


def norm_exc(e):
    """Outcome for an exception: type name + message with object addresses removed."""
    msg = _ADDR.sub('0x?', str(e))
    if len(msg) > 300:
        msg = msg[:300] + '...'
    return ('exc', type(e).__name__, msg)


# ---------------------------------------------------------------------------------------------
# framing over pipes

_INHERITED = set()   # fds a freshly forked child must close (pipe ends that belong to its ancestors)


def _write_all(fd, data):
    view = memoryview(data)
    while view:
        n = os.write(fd, view)
        view = view[n:]


def send(fd, obj):
    data = pickle.dumps(obj, protocol=4)
    _write_all(fd, struct.pack('>I', len(data)) + data)


class FrameReader:
    def __init__(self, fd):
        self.fd = fd
        self.buf = bytearray()
        self.eof = False

    def feed(self):
        """Read once (fd must be readable). Returns list of complete frames."""
        chunk = os.read(self.fd, 1 << 16)
        if not chunk:
            self.eof = True
            return []
        self.buf += chunk
        out = []
        while True:
            if len(self.buf) < 4:
                break
            n = struct.unpack('>I', bytes(self.buf[:4]))[0]
            if len(self.buf) < 4 + n:
                break
            out.append(pickle.loads(bytes(self.buf[4:4 + n])))
            del self.buf[:4 + n]
        return out


def fork_stream(fn, timeout):
    """
    Fork; the child runs fn(emit) and _exits. Returns (frames, status) with status in
    {'ok', 'timeout', 'crash:<detail>'}. The child is a copy of the caller, so if the caller has
    never executed mistletoe code the child starts pristine.
    """
    r, w = os.pipe()
    sys.stdout.flush()
    sys.stderr.flush()
    pid = os.fork()
    if pid == 0:
        code = 0
        try:
            os.close(r)
            for fd in list(_INHERITED):
                try:
                    os.close(fd)
                except OSError:
                    pass
            # whatever the code under test prints (Scheme's `display`, warnings) must not reach the check's stdout,
            # where only the parent writes VIOLATION / KNOWN-FINDING lines
            sys.stdout = open(os.devnull, 'w')
            try:
                os.dup2(sys.stdout.fileno(), 1)      # also for code that writes to file descriptor 1 directly
            except OSError:
                pass
            fn(lambda obj: send(w, obj))
        except BaseException:
            code = 3
            try:
                send(w, ('__harness_exc__', traceback.format_exc()))
            except BaseException:
                pass
        finally:
            os._exit(code)
    os.close(w)
    frames = []
    reader = FrameReader(r)
    deadline = time.monotonic() + timeout
    status = 'ok'
    try:
        while not reader.eof:
            left = deadline - time.monotonic()
            if left <= 0:
                status = 'timeout'
                break
            ready, _, _ = select.select([r], [], [], left)
            if not ready:
                status = 'timeout'
                break
            frames.extend(reader.feed())
    finally:
        os.close(r)
        if status == 'timeout':
            try:
                os.kill(pid, signal.SIGKILL)
            except OSError:
                pass
        _, st = os.waitpid(pid, 0)
    if status == 'ok':
        if os.WIFSIGNALED(st):
            status = 'crash:signal %d' % os.WTERMSIG(st)
        elif os.WEXITSTATUS(st) != 0:
            detail = ''
            if frames and isinstance(frames[-1], tuple) and frames[-1] and frames[-1][0] == '__harness_exc__':
                detail = frames.pop()[1]
            status = 'crash:exit %d %s' % (os.WEXITSTATUS(st), detail)
    return frames, status


def run_pool(n_workers, worker_fn, on_frame, deadline_s):
    """
    Fork n_workers; worker i runs worker_fn(i, n_workers, emit) and must finish with emit(('done', summary)).
    on_frame(i, frame) is called in the parent for every frame. Raises HarnessError if a worker dies,
    does not say 'done', or the batch exceeds deadline_s (everything is killed first).
    """
    sys.stdout.flush()
    sys.stderr.flush()
    workers = {}
    for i in range(n_workers):
        r, w = os.pipe()
        pid = os.fork()
        if pid == 0:
            code = 0
            try:
                os.close(r)
                for rr, _, _ in workers.values():
                    os.close(rr)
                _INHERITED.add(w)
                worker_fn(i, n_workers, lambda obj: send(w, obj))
            except BaseException:
                code = 3
                try:
                    send(w, ('__harness_exc__', traceback.format_exc()))
                except BaseException:
                    pass
            finally:
                os._exit(code)
        os.close(w)
        workers[r] = (r, pid, i)
    readers = {r: FrameReader(r) for r in workers}
    done = set()
    errors = []
    deadline = time.monotonic() + deadline_s
    live = dict(workers)
    try:
        while live:
            left = deadline - time.monotonic()
            if left <= 0:
                errors.append('batch deadline of %ss exceeded' % deadline_s)
                break
            ready, _, _ = select.select(list(live), [], [], min(left, 5.0))
            for r in ready:
                _, pid, i = live[r]
                for frame in readers[r].feed():
                    if isinstance(frame, tuple) and frame and frame[0] == '__harness_exc__':
                        errors.append('worker %d: %s' % (i, frame[1]))
                    else:
                        if isinstance(frame, tuple) and frame and frame[0] == 'done':
                            done.add(i)
                        on_frame(i, frame)
                if readers[r].eof:
                    del live[r]
    finally:
        for r, pid, i in workers.values():
            if r in live:
                try:
                    os.kill(pid, signal.SIGKILL)
                except OSError:
                    pass
            os.close(r)
            _, st = os.waitpid(pid, 0)
            if r not in live and (os.WIFSIGNALED(st) or os.WEXITSTATUS(st) != 0):
                errors.append('worker %d ended with status %d' % (i, st))
    missing = [i for (_, _, i) in workers.values() if i not in done]
    if missing and not errors:
        errors.append('workers %s ended without a summary' % missing)
    if errors:
        raise HarnessError('; '.join(errors))


def n_workers():
    v = os.environ.get('VERIF_WORKERS')
    if v:
        return max(1, int(v))
    return max(1, min(16, os.cpu_count() or 1))


# ---------------------------------------------------------------------------------------------
# evidence

def write_evidence(prop, doc):
    d = os.environ.get('VERIF_EVIDENCE_DIR') or os.path.join(VERIF_ROOT, 'evidence')
    os.makedirs(d, exist_ok=True)
    path = os.path.join(d, prop + '.json')
    tmp = path + '.tmp'
    with open(tmp, 'w', encoding='utf-8') as f:
        json.dump(doc, f, indent=1, sort_keys=False, ensure_ascii=True)
        f.write('\n')
    os.replace(tmp, path)
    return path


def write_replay(prop, record):
    d = os.environ.get('VERIF_REPLAY_DIR') or os.path.join(VERIF_ROOT, 'replays')
    os.makedirs(d, exist_ok=True)
    name = '%s-%s-%s.json' % (prop, record.get('seed'), sha(record)[:8])
    path = os.path.join(d, name)
    with open(path, 'w', encoding='utf-8') as f:
        json.dump(record, f, indent=1, ensure_ascii=True)
        f.write('\n')
    return path


def stack_depth():
    f = sys._getframe(1)
    n = 0
    while f is not None:
        n += 1
        f = f.f_back
    return n
