"""known_findings.json: loader and matcher. Read-only at run time."""
import json
import os
import re

from . import core

PATH = os.path.join(core.VERIF_ROOT, 'known_findings.json')


def load():
    if not os.path.exists(PATH):
        return []
    with open(PATH, encoding='utf-8') as f:
        data = json.load(f)
    return data.get('findings', [])


def _diff_predicate(name, expected, actual):
    if name == 'equal_without_usepackage':
        strip = lambda o: re.sub(r'\\usepackage[^\n]*\n', '', o[1]) if o and o[0] == 'ok' else o
        return expected[0] == 'ok' and actual[0] == 'ok' and strip(expected) == strip(actual)
    raise core.HarnessError('unknown diff predicate %r in known_findings.json' % name)


def match_open(violation, findings):
    """Return the first OPEN finding whose matcher covers this (minimised) violation record, else None.
    `fixed` entries never match: a fixed defect that returns is a VIOLATION again."""
    for f in findings:
        if f.get('status') != 'open' or f.get('property') != violation['property']:
            continue
        m = f.get('match') or {}
        if 'op_kind' in m and violation['failing']['kind'] not in m['op_kind']:
            continue
        if 'renderer' in m and violation['failing'].get('R') not in m['renderer']:
            continue
        if 'implicated_keys' in m and sorted(m['implicated_keys']) != sorted(violation.get('implicated') or {}):
            continue
        if 'channel' in m and violation['failing'].get('channel') not in m['channel']:
            continue
        if 'diff_predicate' in m and not _diff_predicate(m['diff_predicate'], violation['expected'], violation['actual']):
            continue
        if 'text_sha' in m and violation['failing'].get('text_sha') not in m['text_sha']:
            continue
        return f
    return None
