"""Structural delta debugging over histories (blocks -> steps -> options -> document lines)."""
import copy


def ddmin(items, test, budget):
    """Classic ddmin: smallest sublist (order kept) for which test(sublist) is True. test(items) must be True."""
    n = 2
    items = list(items)
    while len(items) >= 2 and budget[0] > 0:
        chunk = max(1, len(items) // n)
        subsets = [items[i:i + chunk] for i in range(0, len(items), chunk)]
        reduced = False
        for i in range(len(subsets)):
            complement = [x for j, s in enumerate(subsets) if j != i for x in s]
            budget[0] -= 1
            if complement and test(complement):
                items = complement
                n = max(n - 1, 2)
                reduced = True
                break
            if budget[0] <= 0:
                break
        if not reduced:
            if n >= len(items):
                break
            n = min(len(items), n * 2)
    if len(items) == 1 and budget[0] > 0:
        pass
    return items


def shrink_history(history, fails, max_evals=400):
    """
    fails(history) -> bool ("same violation class still shows"). Returns a smaller failing history.
    Deterministic; bounded by max_evals predicate evaluations.
    """
    budget = [max_evals]
    h = copy.deepcopy(history)
    # 1. blocks
    h = ddmin(h, fails, budget)
    # 2. steps inside each context block
    for bi in range(len(h)):
        if h[bi]['k'] != 'CTX' or len(h[bi].get('steps') or []) < 2:
            continue

        def with_steps(steps, bi=bi):
            c = copy.deepcopy(h)
            c[bi]['steps'] = steps
            return c
        steps = ddmin(h[bi]['steps'], lambda s: fails(with_steps(s)), budget)
        h = with_steps(steps)
    # 3. simplest options / exit mode
    for bi in range(len(h)):
        b = h[bi]
        for key, simple in (('opts', {}), ('exit', 'normal')):
            if key in b and b[key] != simple and budget[0] > 0:
                c = copy.deepcopy(h)
                c[bi][key] = simple
                budget[0] -= 1
                if fails(c):
                    h = c
    # 4. document lines
    def docs_of(hh):
        for bi, b in enumerate(hh):
            if 'doc' in b:
                yield (bi, None)
            for si, s in enumerate(b.get('steps') or []):
                if 'doc' in s:
                    yield (bi, si)

    for (bi, si) in list(docs_of(h)):
        holder = h[bi] if si is None else h[bi]['steps'][si]
        lines = holder['doc'].splitlines(keepends=True)
        if len(lines) < 2:
            continue

        def with_lines(ls, bi=bi, si=si):
            c = copy.deepcopy(h)
            tgt = c[bi] if si is None else c[bi]['steps'][si]
            tgt['doc'] = ''.join(ls)
            return c
        lines = ddmin(lines, lambda ls: fails(with_lines(ls)), budget)
        h = with_lines(lines)
    return h, max_evals - budget[0]
