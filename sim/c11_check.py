"""C11 check driver: judge histories against the pristine oracle, shrink, report, write evidence."""
import copy
import hashlib
import json
import os
import sys
import time

from . import core
from . import findings as findings_mod
from . import shrink as shrink_mod
from . import c11_docs as D
from . import c11_world as W
from . import c11_gen as G

PROP = 'C11'
RUN_TIMEOUT = 60.0
DEFAULT_EXIT = ('ok', [W.DEFAULT_BLOCK_NAMES, W.DEFAULT_SPAN_NAMES])


def _op_of(history, rec):
    b = history[rec['b']]
    if rec['kind'] == 'LEAVE':
        return {}
    if rec['s'] is not None and rec['s'] >= 0:
        return b['steps'][rec['s']]
    return b


def _execute_with_begin(history, emit):
    W.execute(history, emit)


_FP_POOL = {}


def _intern_fp(fp):
    """Pristine 'state before the operation' fingerprints are identical for all documents of one configuration: keep one
    object per distinct value (a process with fewer small objects forks markedly faster)."""
    key = core.sha(fp)
    got = _FP_POOL.get(key)
    if got is None:
        got = _FP_POOL[key] = fp
    return got


class Judge:
    """Lives in a process that never executes mistletoe itself: every evaluation is a fork."""

    def __init__(self, cache=None):
        self.cache = dict(cache or {})
        self.hits = 0
        self.misses = 0

    def oracle(self, history, rec, records=None):
        oh = W.oracle_history(history, rec, records)
        if oh is None:
            return None
        key = core.sha(oh)
        got = self.cache.get(key)
        if got is not None:
            self.hits += 1
            return got
        self.misses += 1
        frames, status = core.fork_stream(lambda emit: W.execute(oh, emit), RUN_TIMEOUT)
        if status != 'ok':
            raise core.HarnessError('oracle evaluation failed (%s) for %s' % (status, json.dumps(oh)[:400]))
        rec0 = W.oracle_pick(rec['kind'], frames)
        got = (rec0['outcome'], _intern_fp(rec0['pre']))
        self.cache[key] = got
        return got

    def run(self, history, want_log=False):
        """Execute one history in a fork of this (pristine) process and compare every observation."""
        n_ops = sum(len(b.get('steps') or []) + 1 for b in history)
        frames, status = core.fork_stream(lambda emit: W.execute(history, emit), RUN_TIMEOUT + 0.02 * n_ops)
        if status.startswith('crash'):
            raise core.HarnessError('run child crashed: %s\nhistory=%s' % (status, json.dumps(history)[:600]))
        res = {'n_obs': 0, 'n_compared': 0, 'faults': {}, 'natural_exc': 0, 'fps': set(), 'pairs': set(),
               'contexts': 0, 'violation': None, 'timeout': status == 'timeout', 'log': []}
        h = hashlib.sha256()
        last_fault = None
        for rec in frames:
            res['n_obs'] += 1
            op = _op_of(history, rec)
            osha = core.sha(rec['outcome'])[:16]
            fsha = core.sha(rec['post'])[:16]
            line = '%d %d %s %s %s' % (rec['b'], rec['s'], rec['kind'], osha, fsha)
            h.update(line.encode() + b'\n')
            if want_log:
                res['log'].append(line)
            res['fps'].add(fsha)
            if rec['kind'] == 'ENTER':
                res['contexts'] += 1
            if rec['kind'] == 'EXIT':
                if rec['outcome'] != DEFAULT_EXIT and res['violation'] is None:
                    res['violation'] = self._violation(history, rec, DEFAULT_EXIT, {})
                continue
            fault_kind = op.get('fault') if rec['kind'] in ('RENDER', 'MD', 'BARE') else None
            if rec['kind'] == 'TOC':
                op = {'doc': '<toc>'}
            is_exc = rec['outcome'][0] == 'exc'
            if is_exc:
                if fault_kind:
                    res['faults'][fault_kind] = res['faults'].get(fault_kind, 0) + 1
                    last_fault = fault_kind + ':' + rec['outcome'][1] + ':' + rec['outcome'][2][:24]
                else:
                    res['natural_exc'] += 1
                    last_fault = 'natural:' + rec['outcome'][1]
            elif last_fault is not None and rec['kind'] in ('RENDER', 'MD', 'BARE', 'TOC'):
                res['pairs'].add((last_fault, rec['kind'], hashlib.sha256(op['doc'].encode()).hexdigest()[:8]))
            if rec.get('nocompare'):
                continue      # produced while renderer contexts were nested: outside the property (DESIGN 4.2)
            if op.get('reclimit'):
                # executed under a lowered recursion limit: a fault injection, not an observation. Where exactly
                # the interpreter gives up depends on warm caches (re, lru_cache), i.e. on the environment.
                continue
            if res['violation'] is not None:
                continue
            got = self.oracle(history, rec, frames)
            if got is None:
                continue
            expected, opre = got
            res['n_compared'] += 1
            if expected != rec['outcome']:
                res['violation'] = self._violation(history, rec, expected, W.implicated(rec['pre'], opre))
        res['digest'] = h.hexdigest()
        if res['timeout'] and res['violation'] is None:
            res['violation'] = {'property': PROP, 'failing': {'b': None, 's': None, 'kind': 'HANG'},
                                'expected': ('ok', 'terminates'), 'actual': ('hang', 'no result within %ss after %d observations'
                                                                             % (RUN_TIMEOUT + 0.02 * n_ops, len(frames))),
                                'implicated': {}, 'klass': 'HANG', 'history': history}
        return res

    @staticmethod
    def _violation(history, rec, expected, implicated):
        b = history[rec['b']]
        op = _op_of(history, rec)
        return {'property': PROP,
                'failing': {'b': rec['b'], 's': rec['s'], 'kind': rec['kind'], 'R': b.get('R'), 'opts': b.get('opts'),
                            'doc': op.get('doc')},
                'expected': list(expected), 'actual': list(rec['outcome']),
                'implicated': implicated,
                # _root_node staying set is a by-product of every failed parse; it names a class only on its own
                'klass': rec['kind'] + '|' + ','.join(sorted(k for k in implicated if k != 'root_node_set' or len(implicated) == 1)),
                'history': history}


# ---------------------------------------------------------------------------------------------
# job plan

def plan(tier, seed):
    variants = G.fault_variants(tier, seed)
    # quick: two rotations per (variant, mode), shifted by variant and mode so that over the variants of one family
    # (same token and placement, all positions) every sentinel gets to be the first observation after the fault
    rots = list(range(len(D.SENTINELS))) if tier == 'thorough' else [0, len(D.SENTINELS) // 2]
    n_sys = len(variants) * len(G.MODES) * len(rots)
    spec = _spec_docs()
    pairs = (G.pair_histories(tier) + G.nest_histories(tier) + G.cross_histories(tier) + G.toc_histories(tier)
             + G.spec_pair_histories(tier, seed, spec) + G.atom_pair_histories(tier) + G.mutate_histories(tier) + G.scheme_histories(tier) + G.samekey_histories(tier) + G.marathon_histories(tier))
    if tier == 'thorough':
        n_rand, n_ff = int(os.environ.get('VERIF_C11_RUNS', 250000)), int(os.environ.get('VERIF_C11_FF_RUNS', 40000))
    else:
        n_rand, n_ff = int(os.environ.get('VERIF_C11_RUNS', 6000)), int(os.environ.get('VERIF_C11_FF_RUNS', 1500))
    return {'rots': rots, 'variants': variants, 'n_sys': n_sys, 'pairs': pairs, 'n_pairs': len(pairs), 'n_rand': n_rand, 'n_ff': n_ff,
            'total': n_sys + len(pairs) + n_rand + n_ff}


def job(pl, tier, seed, g, extra_docs=None):
    """global job index -> (batch, index, history)"""
    if g < pl['n_sys']:
        rots = pl['rots']
        per_v = len(G.MODES) * len(rots)
        v = pl['variants'][g // per_v]
        m = (g % per_v) // len(rots)
        rot = (rots[g % len(rots)] + (g // per_v) * 5 + m * 3) % len(D.SENTINELS)
        return 'sys', g, G.systematic_history(v, G.MODES[m], rot), v
    g2 = g - pl['n_sys']
    if g2 < pl['n_pairs']:
        h = pl['pairs'][g2][1]
        return pl['pairs'][g2][0], g2, (h() if callable(h) else h), None
    g3 = g2 - pl['n_pairs']
    if g3 < pl['n_rand']:
        return 'rand', g3, G.random_history(G.history_rng(seed, 'rand', g3), tier, False, extra_docs), None
    g4 = g3 - pl['n_rand']
    return 'randff', g4, G.random_history(G.history_rng(seed, 'randff', g4), tier, True, extra_docs), None


def _spec_docs():
    """Spec corpus inputs (input data only, never an oracle). Absent file -> empty list."""
    path = os.path.join(core.REPO, 'test', 'specification', 'commonmark.json')
    try:
        with open(path, encoding='utf-8') as f:
            return [e['markdown'] for e in json.load(f)]
    except Exception:
        return []


def worker_main(tier, seed, pl, cache, extra_docs):
    def fn(widx, nw, emit):
        judge = Judge(cache)
        agg = {'runs': 0, 'obs': 0, 'compared': 0, 'faults': {}, 'natural_exc': 0, 'fps': set(), 'pairs': set(),
               'digests': set(), 'nontrivial': 0, 'by_batch': {}, 'violations': 0, 'samples': {}, 'sites': set(),
               'sites_fired': set(), 'max_blocks': 0}
        chunk = len(G.MODES) * len(pl['rots'])   # all histories of one fault variant go to one worker (shared oracle keys);
        n_sys_chunks = (pl['n_sys'] + chunk - 1) // chunk     # everything after the systematic batch is dealt out one by one
        mine = [x for c in range(widx, n_sys_chunks, nw) for x in range(c * chunk, min((c + 1) * chunk, pl['n_sys']))]
        mine += list(range(pl['n_sys'] + widx, pl['total'], nw))     # (long histories must not queue up behind one worker)
        for g in mine:
            batch, idx, history, v = job(pl, tier, seed, g, extra_docs)
            res = judge.run(history)
            agg['runs'] += 1
            if agg['runs'] % 1000 == 0:
                emit(('progress', 1000))
            agg['obs'] += res['n_obs']
            agg['compared'] += res['n_compared']
            agg['natural_exc'] += res['natural_exc']
            agg['max_blocks'] = max(agg['max_blocks'], len(history))
            for k, n in res['faults'].items():
                agg['faults'][k] = agg['faults'].get(k, 0) + n
            agg['fps'] |= res['fps']
            agg['pairs'] |= res['pairs']
            bb = agg['by_batch'].setdefault(batch, {'runs': 0, 'compared': 0, 'violations': 0})
            bb['runs'] += 1
            bb['compared'] += res['n_compared']
            fired = bool(res['faults']) or res['natural_exc'] > 0
            if v is not None:
                site = (v['kind'], v['site'], v['pos'], v['R'])
                agg['sites'].add(site)
                if fired:
                    agg['sites_fired'].add(site)
            if fired or res['contexts'] >= 2:
                agg['nontrivial'] += 1
                agg['digests'].add(res['digest'][:16])
                if batch not in agg['samples'] and len(json.dumps(history)) < 3000:
                    agg['samples'][batch] = {'batch': batch, 'index': idx, 'history': history, 'digest': res['digest'][:16],
                                             'observations': res['n_obs'], 'faults_fired': res['faults']}
            if res['violation'] is not None:
                agg['violations'] += 1
                bb['violations'] += 1
                viol = res['violation']
                viol.update({'seed': seed, 'tier': tier, 'batch': batch, 'index': idx})
                if agg['violations'] <= 40:
                    emit(('violation', viol))
        agg['oracle_hits'], agg['oracle_misses'] = judge.hits, judge.misses
        emit(('done', agg))
    return fn


def warm_cache(tier):
    """Oracle outcomes for (config x probe) computed once, in parallel, before the run workers are forked."""
    keys = []
    names = sorted(D.PROBES)
    for rid in W.RENDERER_IDS:
        for oi, opts in enumerate(W.OPTIONS[rid]):
            for n in names:
                keys.append([{'k': 'CTX', 'R': rid, 'opts': opts, 'exit': 'normal', 'steps': [{'k': 'RENDER', 'doc': D.PROBES[n]}]}])
                if not opts:
                    keys.append([{'k': 'MD', 'R': rid, 'opts': {}, 'doc': D.PROBES[n]}])
    for n in names:
        keys.append([{'k': 'BARE', 'doc': D.PROBES[n]}])
    # the specification corpus is warmed only where each of its outcomes is used many times (thorough: every stride);
    # in the quick tier each (renderer, mode, spec document) outcome is needed by exactly one history
    for doc in (_spec_docs() if tier == 'thorough' else []) + [D.ATOM_PROBES[n] for n in sorted(D.ATOM_PROBES)]:
        for rid in W.RENDERER_IDS:
            keys.append([{'k': 'CTX', 'R': rid, 'opts': {}, 'exit': 'normal', 'steps': [{'k': 'RENDER', 'doc': doc}]}])
            keys.append([{'k': 'MD', 'R': rid, 'opts': {}, 'doc': doc}])
    cache = {}

    def fn(widx, nw, emit):
        out = {}
        for i in range(widx, len(keys), nw):
            oh = keys[i]
            frames, status = core.fork_stream(lambda e: W.execute(oh, e), RUN_TIMEOUT)
            if status != 'ok':
                raise core.HarnessError('oracle warm-up failed: %s %s' % (status, json.dumps(oh)[:300]))
            kind = 'RENDER' if oh[0]['k'] == 'CTX' else oh[0]['k']
            rec0 = W.oracle_pick(kind, frames)
            out[core.sha(oh)] = (rec0['outcome'], rec0['pre'])
        emit(('done', out))


    def on_frame(i, frame):
        if frame[0] == 'done':
            for k, (outcome, pre) in frame[1].items():
                cache[k] = (outcome, _intern_fp(pre))
    core.run_pool(core.n_workers(), fn, on_frame, 600)
    return cache


# ---------------------------------------------------------------------------------------------
# shrinking and reporting

def minimise(judge, viol, max_evals=300):
    klass = viol['klass']

    def fails(h):
        try:
            res = judge.run(h)
        except core.HarnessError:
            return False
        v = res['violation']
        return v is not None and v['klass'] == klass
    if not fails(viol['history']):
        return viol, 0, False
    small, evals = shrink_mod.shrink_history(viol['history'], fails, max_evals)
    res = judge.run(small)
    v = dict(res['violation'])
    for k in ('seed', 'tier', 'batch', 'index'):
        v[k] = viol.get(k)
    v['original_blocks'] = len(viol['history'])
    v['shrink_evals'] = evals
    return v, evals, True


def run_check(tier, seed):
    t0 = time.time()
    pl = plan(tier, seed)
    extra_docs = _spec_docs() if tier == 'thorough' else None
    cache = warm_cache(tier)
    t_warm = time.time() - t0
    total = {'runs': 0, 'obs': 0, 'compared': 0, 'faults': {}, 'natural_exc': 0, 'fps': set(), 'pairs': set(),
             'digests': set(), 'nontrivial': 0, 'by_batch': {}, 'violations': 0, 'samples': {}, 'sites': set(),
             'sites_fired': set(), 'oracle_hits': 0, 'oracle_misses': 0, 'max_blocks': 0}
    viols = []

    prog = {'n': 0, 't': time.time()}

    def on_frame(i, frame):
        if frame[0] == 'progress':
            prog['n'] += frame[1]
            if time.time() - prog['t'] > 120:       # wall clock used for the progress line only, never for a decision
                prog['t'] = time.time()
                print('progress: %d/%d histories, %d violations so far' % (prog['n'], pl['total'], len(viols)))
                sys.stdout.flush()
        elif frame[0] == 'violation':
            viols.append(frame[1])
        elif frame[0] == 'done':
            a = frame[1]
            for k in ('runs', 'obs', 'compared', 'natural_exc', 'nontrivial', 'violations', 'oracle_hits', 'oracle_misses'):
                total[k] += a[k]
            total['max_blocks'] = max(total['max_blocks'], a['max_blocks'])
            for k in ('fps', 'pairs', 'digests', 'sites', 'sites_fired'):
                total[k] |= a[k]
            for k, n in a['faults'].items():
                total['faults'][k] = total['faults'].get(k, 0) + n
            for b, bb in a['by_batch'].items():
                t = total['by_batch'].setdefault(b, {'runs': 0, 'compared': 0, 'violations': 0})
                for kk in t:
                    t[kk] += bb[kk]
            for b, s in a['samples'].items():
                if b not in total['samples'] or s['index'] < total['samples'][b]['index']:
                    total['samples'][b] = s
    deadline = 3 * 3600 if tier == 'thorough' else 900
    core.run_pool(core.n_workers(), worker_main(tier, seed, pl, cache, extra_docs), on_frame, deadline)
    t_run = time.time() - t0 - t_warm

    # shrink one representative per class (smallest history first), in this still-pristine process
    judge = Judge(cache)
    known = findings_mod.load()
    by_class = {}
    for v in sorted(viols, key=lambda v: (len(json.dumps(v['history'])), v['batch'], v['index'])):
        by_class.setdefault(v['klass'], []).append(v)
    reported = []
    known_lines = []
    MAX_CLASSES = 8      # one minimised replay per class; further classes are counted, not shrunk
    ranked = sorted(by_class.items(), key=lambda kv: (-len(kv[1]), kv[0]))
    if len(ranked) > MAX_CLASSES:
        print('note: %d violation classes seen, reporting the %d most frequent' % (len(ranked), MAX_CLASSES))
    for klass, vs in ranked[:MAX_CLASSES]:
        v, evals, ok = minimise(judge, vs[0])
        if not ok:
            raise core.HarnessError('violation did not reproduce when re-executed: batch=%s index=%s' % (vs[0]['batch'], vs[0]['index']))
        f = findings_mod.match_open(v, known)
        if f is not None:
            known_lines.append('KNOWN-FINDING: property=%s %s %s' % (PROP, f['id'], f.get('what_fails', f.get('description', ''))))
            continue
        path = core.write_replay(PROP, v)
        reported.append((v, path, len(vs)))
    for line in sorted(set(known_lines)):
        print(line)
    for v, path, n in reported:
        print('VIOLATION property=%s replay=%s' % (PROP, path))
        print('  class=%s renderer=%s count_in_run=%d expected=%s actual=%s implicated=%s' % (
            v['klass'], v['failing'].get('R'), n, json.dumps(v['expected'])[:160], json.dumps(v['actual'])[:160],
            json.dumps(v['implicated'])))
    wall = time.time() - t0
    return {'plan': pl, 'total': total, 'viols': viols, 'reported': reported, 'known_lines': known_lines,
            't_warm': t_warm, 't_run': t_run, 'wall': wall, 'cache_size': len(cache)}


def evidence(tier, seed, out, selftests):
    total, pl = out['total'], out['plan']
    runs_per_hour = int(total['runs'] / max(out['t_run'], 1e-6) * 3600)
    samples = [total['samples'][b] for b in sorted(total['samples'])][:4]
    doc = {
        'property_id': PROP,
        'tier': tier,
        'seed': seed,
        'level': 'fault_enumeration',
        'coverage': {
            'evaluations': total['compared'],
            'distinct_nontrivial': len(total['digests']),
            'rule': 'A case is one simulated history (sequence of public-API operations with injected parse/render faults) executed '
                    'against the real mistletoe in a fork of a pristine process; evaluations counts the individual operation outcomes '
                    'compared with what a pristine process returns for that operation alone. A history is non-trivial if at least one '
                    'fault actually fired (an exception was raised and observed) or it contains at least two renderer contexts; '
                    'distinct = distinct run digests (sha256 over step, outcome digest and state fingerprint) among those.',
            'samples': samples,
            'exhaustive': False,
            'runs': total['runs'],
            'observations': total['obs'],
            'runs_per_hour': runs_per_hour,
            'batches': total['by_batch'],
            'systematic_fault_variants': len(pl['variants']),
            'systematic_histories': pl['n_sys'],
            'pair_histories': pl['n_pairs'],
            'random_histories': pl['n_rand'],
            'fault_free_random_histories': pl['n_ff'],
            'max_blocks_in_a_history': total['max_blocks'],
            'faults_fired': total['faults'],
            'natural_exceptions_observed': total['natural_exc'],
            'fault_sites_total': len(total['sites']),
            'fault_sites_fired': len(total['sites_fired']),
            'distinct_state_fingerprints': len(total['fps']),
            'distinct_fault_to_observation_pairs': len(total['pairs']),
            'oracle_cache': {'warm_entries': out['cache_size'], 'hits': total['oracle_hits'], 'misses': total['oracle_misses']},
            'simulated_time': 'not applicable - the system reads no clock; progress is counted in operations',
            'components': {
                'real': ['mistletoe (every module under %s, imported from the working tree)' % core.REPO, 'pygments',
                         'CPython recursion limit (lowered around fault documents only)'],
                'stub': ['user-side token classes and render functions (benign and faulting) registered through add_token/render_map'],
            },
            'selftests': selftests,
            'known_findings_printed': len(set(out['known_lines'])),
        },
        'assumptions': [
            'os.fork gives the child an exact copy of a process that has imported mistletoe and never called it; '
            'this equals a fresh interpreter (checked on a sample each run: selftests.oracle_vs_fresh_interpreter)',
            'operations executed under a lowered recursion limit are fault injections; their own outcome is not compared',
            'contexts are never nested and a renderer is never constructed while another is active (outside the property)',
        ],
        'wall_s': round(out['wall'], 2),
        'violations': len(out['reported']),
    }
    return core.write_evidence(PROP, doc)
