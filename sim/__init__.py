"""Deterministic simulation with fault injection for miyuchina/mistletoe (see /verif/DESIGN.md)."""
