"""
C11 world: the operation alphabet, the user-side tokens (benign and faulting), the executor that
runs a history against the REAL mistletoe, and the state fingerprint.

Everything here that subclasses mistletoe classes is "user code": it uses only the documented
extension mechanism (token classes with start/read/__init__ or pattern/find/__init__, add_token with
a position, render_map entries).
"""
import functools
import html
import json
import re
import sys

from . import core

core.import_repo()

import mistletoe                                       # noqa: E402
from mistletoe import block_token, span_token, core_tokens, token as token_mod   # noqa: E402
from mistletoe.block_token import BlockToken           # noqa: E402
from mistletoe.span_token import SpanToken             # noqa: E402
from mistletoe.ast_renderer import get_ast             # noqa: E402
import mistletoe.span_tokenizer as span_tokenizer      # noqa: E402

# ---------------------------------------------------------------------------------------------
# renderers

RENDERERS = {
    'Html': ('mistletoe.html_renderer', 'HtmlRenderer', 'html'),
    'Markdown': ('mistletoe.markdown_renderer', 'MarkdownRenderer', 'markdown'),
    'LaTeX': ('mistletoe.latex_renderer', 'LaTeXRenderer', 'latex'),
    'Ast': ('mistletoe.ast_renderer', 'AstRenderer', 'ast'),
    'Toc': ('mistletoe.contrib.toc_renderer', 'TocRenderer', 'html'),
    'GithubWiki': ('mistletoe.contrib.github_wiki', 'GithubWikiRenderer', 'html'),
    'MathJax': ('mistletoe.contrib.mathjax', 'MathJaxRenderer', 'html'),
    'Pygments': ('mistletoe.contrib.pygments_renderer', 'PygmentsRenderer', 'html'),
    'Jira': ('mistletoe.contrib.jira_renderer', 'JiraRenderer', 'wiki'),
    'XWiki20': ('mistletoe.contrib.xwiki20_renderer', 'XWiki20Renderer', 'wiki'),
}
BUNDLED_IDS = list(RENDERERS)          # the ten bundled document renderers
RENDERERS['UserHtml'] = ('sim.c11_world', 'UserHtmlRenderer', 'html')
RENDERERS['UserMarkdown'] = ('sim.c11_world', 'UserMarkdownRenderer', 'markdown')
RENDERER_IDS = list(RENDERERS)         # + user renderers: subclasses that hand their own tokens to super().__init__
# Scheme (contrib) is a renderer for a different language: it REBINDS both token lists and renders `Program` tokens, not
# Markdown documents. It takes part as a context of its own (programs as documents) but is not in RENDERER_IDS.
RENDERERS['Scheme'] = ('mistletoe.contrib.scheme', 'Scheme', 'scheme')

_HTML_OPTS = [
    {},
    {'process_html_tokens': False},
    {'html_escape_double_quotes': True},
    {'html_escape_single_quotes': True, 'html_escape_double_quotes': True},
    {'process_html_tokens': False, 'html_escape_single_quotes': True},
]
OPTIONS = {
    'Html': _HTML_OPTS,
    'Markdown': [{}, {'max_line_length': 20}, {'max_line_length': 80}, {'normalize_whitespace': True},
                 {'max_line_length': 1}, {'max_line_length': 20, 'normalize_whitespace': True}],
    'LaTeX': [{}],
    'Ast': [{}],
    'Toc': [{}, {'depth': 2}, {'omit_title': False}, {'depth': 3, 'omit_title': False},
            {'process_html_tokens': False}],
    'GithubWiki': [{}, {'process_html_tokens': False}, {'html_escape_double_quotes': True}],
    'MathJax': [{}, {'process_html_tokens': False}, {'html_escape_single_quotes': True}],
    'Pygments': [{}, {'style': 'monokai'}, {'fail_on_unsupported_language': True},
                 {'style': 'monokai', 'process_html_tokens': False}],
    'Jira': [{}],
    'XWiki20': [{}],
    'UserHtml': [{}, {'process_html_tokens': False}],
    'UserMarkdown': [{}, {'max_line_length': 20}],
    'Scheme': [{}],
}


def renderer_class(rid):
    mod, name, _ = RENDERERS[rid]
    return getattr(sys.modules[mod], name)


def family(rid):
    return RENDERERS[rid][2]


# ---------------------------------------------------------------------------------------------
# user-side tokens

class InjectedFault(Exception):
    """Raised by the faulting user tokens below."""


class InjectedAbort(BaseException):
    """Like KeyboardInterrupt/SystemExit: not an Exception subclass. Raised synchronously by user tokens, so it strikes only
    where a token callback runs (this is NOT asynchronous injection at arbitrary instructions, see DESIGN 4.3)."""


BLOCK_TRIGGER = 'FAULTLINE'
SPAN_TRIGGER = 'FAULTSPAN'
RENDER_SPAN_TRIGGER = 'RENDERFAULT'
RENDER_BLOCK_TRIGGER = 'BLOCKRENDERFAULT'


class Curly(SpanToken):
    """Benign span token: {{text}} (children parsed)."""
    pattern = re.compile(r'\{\{(.+?)\}\}')


class CurlyRaw(SpanToken):
    """Benign span token, no inner parsing, high precedence."""
    pattern = re.compile(r'\{\{(.+?)\}\}')
    parse_inner = False
    precedence = 7


class CurlyLow(SpanToken):
    """Benign span token with the lowest precedence and whole-match parse group."""
    pattern = re.compile(r'\{\{(.+?)\}\}')
    precedence = 1


class _CurlyTwin(SpanToken):
    """A different user token class that happens to have the same class NAME as Curly (render_map is keyed by name)."""
    pattern = re.compile(r'<<(.+?)>>')
    parse_inner = False
    precedence = 6


_CurlyTwin.__name__ = 'Curly'
_CurlyTwin.__qualname__ = 'Curly'


class ReenterSpan(SpanToken):
    """Benign span token that parses its own inner content by calling span_token.tokenize_inner from its constructor, i.e.
    it RE-ENTERS the inline tokenizer while the outer tokenize() call is still running."""
    pattern = re.compile(r'\(\((.+?)\)\)')
    parse_inner = False
    precedence = 6

    def __init__(self, match):
        self.children = span_token.tokenize_inner(match.group(1))


class Bang(BlockToken):
    """Benign block token: a line starting with '!!! '."""
    def __init__(self, lines):
        self.children = span_token.tokenize_inner(lines[0][4:].strip())

    @staticmethod
    def start(line):
        return line.startswith('!!! ')

    @staticmethod
    def read(lines):
        return [next(lines)]


class CalloutHeading(block_token.Heading):
    """User token derived from a BUILT-IN block token: '!! text' is a callout, parsed like an ATX heading."""
    pattern = re.compile(r' {0,3}(!{1,6})(?:\n|\s+?(.*?)(\n|\s+?!+\s*?$))')


class DashStrike(span_token.Strikethrough):
    """User token derived from a BUILT-IN span token."""
    pattern = re.compile(r"(?<!\\)(?:\\\\)*--(.+?)--", re.DOTALL)


class BangInterrupt(Bang):
    """Same, and it may interrupt a paragraph."""
    @classmethod
    def check_interrupts_paragraph(cls, lines):
        return cls.start(lines.peek())


class FaultBlockStart(BlockToken):
    @staticmethod
    def start(line):
        if BLOCK_TRIGGER in line:
            raise InjectedFault('block.start')
        return False

    @staticmethod
    def read(lines):            # pragma: no cover - never reached
        return [next(lines)]


class FaultBlockRead(BlockToken):
    @staticmethod
    def start(line):
        return BLOCK_TRIGGER in line

    @staticmethod
    def read(lines):
        next(lines)
        raise InjectedFault('block.read')


class FaultBlockInit(BlockToken):
    def __init__(self, lines):
        raise InjectedFault('block.init')

    @staticmethod
    def start(line):
        return BLOCK_TRIGGER in line

    @staticmethod
    def read(lines):
        return [next(lines)]


class FaultBlockInterrupt(BlockToken):
    @staticmethod
    def start(line):
        return False

    @staticmethod
    def read(lines):            # pragma: no cover - never reached
        return [next(lines)]

    @classmethod
    def check_interrupts_paragraph(cls, lines):
        if BLOCK_TRIGGER in (lines.peek() or ''):
            raise InjectedFault('block.interrupt')
        return False


class FaultBlockReadAbort(BlockToken):
    @staticmethod
    def start(line):
        return BLOCK_TRIGGER in line

    @staticmethod
    def read(lines):
        next(lines)
        raise InjectedAbort('block.read')


class FaultSpanInitAbort(SpanToken):
    pattern = re.compile('(' + SPAN_TRIGGER + ')')
    parse_inner = False
    precedence = 6

    def __init__(self, match):
        raise InjectedAbort('span.init')


class FaultSpanFind(SpanToken):
    @classmethod
    def find(cls, string):
        if SPAN_TRIGGER in string:
            raise InjectedFault('span.find')
        return []


class FaultSpanInit(SpanToken):
    pattern = re.compile('(' + SPAN_TRIGGER + ')')
    parse_inner = False
    precedence = 6

    def __init__(self, match):
        raise InjectedFault('span.init')


class RenderFaultSpan(SpanToken):
    """Parses fine; its render function raises."""
    pattern = re.compile('(' + RENDER_SPAN_TRIGGER + ')')
    parse_inner = False
    precedence = 6


class RenderAbortSpan(SpanToken):
    """Parses fine; its render function raises a BaseException subclass (think KeyboardInterrupt inside a callback)."""
    pattern = re.compile('(RENDERABORT)')
    parse_inner = False
    precedence = 6


class RenderFaultBlock(BlockToken):
    """Parses fine; its render function raises."""
    def __init__(self, lines):
        self.children = []

    @staticmethod
    def start(line):
        return RENDER_BLOCK_TRIGGER in line

    @staticmethod
    def read(lines):
        return [next(lines)]


from mistletoe.html_renderer import HtmlRenderer as _HtmlRenderer              # noqa: E402
from mistletoe.markdown_renderer import MarkdownRenderer as _MarkdownRenderer, Fragment as _Fragment   # noqa: E402


class UserHtmlRenderer(_HtmlRenderer):
    """What the documentation tells users to write: a renderer subclass that passes its own tokens to super().__init__
    and defines render_<snake_case_name> methods."""
    def __init__(self, **kwargs):
        super().__init__(Curly, Bang, **kwargs)

    def render_curly(self, token):
        return '<<' + self.render_inner(token) + '>>'

    def render_bang(self, token):
        return '[[[' + self.render_inner(token) + ']]]'


class UserMarkdownRenderer(_MarkdownRenderer):
    def __init__(self, **kwargs):
        super().__init__(CurlyRaw, **kwargs)

    def render_curly_raw(self, token):
        return [_Fragment('{{' + token.content + '}}')]


BUILTIN_REMOVABLE_BLOCK = ['Table', 'ThematicBreak', 'CodeFence', 'Heading', 'Quote', 'List', 'BlockCode']
BUILTIN_REMOVABLE_SPAN = ['Strikethrough', 'AutoLink', 'EscapeSequence', 'LineBreak']


def unregister(name):
    """remove_token of a built-in token by name, as a user who wants to switch a construct off would do; no-op if absent."""
    for mod in (block_token, span_token):
        for cls in list(mod._token_types):
            if cls.__name__ == name and cls is getattr(mod, name, None):
                mod.remove_token(cls)
                return True
    return False


TOKENS = {
    'ReenterSpan': ReenterSpan, 'CalloutHeading': CalloutHeading, 'DashStrike': DashStrike, 'CurlyTwin': _CurlyTwin, 'Curly': Curly, 'CurlyRaw': CurlyRaw, 'CurlyLow': CurlyLow, 'Bang': Bang, 'BangInterrupt': BangInterrupt,
    'FaultBlockStart': FaultBlockStart, 'FaultBlockRead': FaultBlockRead, 'FaultBlockInit': FaultBlockInit,
    'FaultBlockInterrupt': FaultBlockInterrupt, 'FaultSpanFind': FaultSpanFind, 'FaultSpanInit': FaultSpanInit,
    'FaultBlockReadAbort': FaultBlockReadAbort, 'FaultSpanInitAbort': FaultSpanInitAbort,
    'RenderFaultSpan': RenderFaultSpan, 'RenderFaultBlock': RenderFaultBlock, 'RenderAbortSpan': RenderAbortSpan,
}
BENIGN_SPAN = ['Curly', 'CurlyRaw', 'CurlyLow', 'CurlyTwin', 'DashStrike', 'ReenterSpan']
BENIGN_BLOCK = ['Bang', 'BangInterrupt', 'CalloutHeading']
FAULT_BLOCK = ['FaultBlockStart', 'FaultBlockRead', 'FaultBlockInit', 'FaultBlockInterrupt', 'FaultBlockReadAbort']
FAULT_SPAN = ['FaultSpanFind', 'FaultSpanInit', 'FaultSpanInitAbort']
FAULT_RENDER = ['RenderFaultSpan', 'RenderFaultBlock', 'RenderAbortSpan']


def is_span(tok_id):
    return issubclass(TOKENS[tok_id], SpanToken)


def _render_func(tok_id, rid, r):
    """The render function a user would put into render_map for this token under this renderer."""
    fam = family(rid)
    if tok_id in ('RenderFaultSpan', 'RenderFaultBlock'):
        def boom(token, **kw):
            raise InjectedFault('render.' + tok_id)
        return boom
    if tok_id == 'RenderAbortSpan':
        def abort(token, **kw):
            raise InjectedAbort('render.' + tok_id)
        return abort
    if tok_id.startswith('Fault'):
        def unreachable(token, **kw):     # tokens that never get constructed
            return '' if fam != 'markdown' else []
        return unreachable
    if fam == 'markdown':
        from mistletoe.markdown_renderer import Fragment
        if is_span(tok_id):
            def span_md(token):
                if token.children is not None:
                    return r.embed_span(Fragment('{{'), token.children, Fragment('}}'))
                return [Fragment('{{' + token.content + '}}')]
            return span_md

        def block_md(token, max_line_length=None):
            text = next(iter(r.span_to_lines(token.children, max_line_length=None)), '')
            return ['!!! ' + text]
        return block_md
    if fam == 'ast':
        return lambda token: ''
    if fam == 'scheme':
        return lambda token: None
    if is_span(tok_id):
        def span_any(token):
            inner = r.render_inner(token) if token.children is not None else html.escape(token.content)
            return '<<' + inner + '>>'
        return span_any

    def block_any(token):
        return '[[[' + ''.join(r.render(c) for c in token.children) + ']]]\n'
    return block_any


def register(tok_id, pos, rid, r):
    cls = TOKENS[tok_id]
    mod = span_token if is_span(tok_id) else block_token
    mod.add_token(cls, pos)
    r.render_map[cls.__name__] = _render_func(tok_id, rid, r)


# ---------------------------------------------------------------------------------------------
# state fingerprint (table 1.1 of DESIGN.md)

import html as _html_mod     # noqa: E402

_STDLIB_CHARREF = span_tokenizer._stdlib_charref
DEFAULT_BLOCK_NAMES = [c.__name__ for c in block_token._token_types]
DEFAULT_SPAN_NAMES = [c.__name__ for c in span_token._token_types]

# fields whose difference from the pristine value can explain an outcome mismatch
DURABLE_FIELDS = ('block_types', 'span_types', 'root_node_set', 'code_matches', 'parse_setext',
                  'charref_is_stdlib', 'interrupt_paragraph', 'ptag_stack', 'packages', 'listTokens',
                  'lastChildOfQuotes', 'firstChildOfListItems', 'recursion_limit')


def fingerprint(r=None):
    fp = {
        'block_types': [c.__name__ for c in block_token._token_types],
        'span_types': [c.__name__ for c in span_token._token_types],
        'root_node_set': token_mod._root_node is not None,
        'code_matches': len(core_tokens._code_matches),
        'parse_setext': block_token.Paragraph.parse_setext,
        'charref_is_stdlib': _html_mod._charref is _STDLIB_CHARREF,
        'interrupt_paragraph': block_token.Table.interrupt_paragraph,
        'recursion_limit': sys.getrecursionlimit(),
        # scratch (recorded for coverage only)
        'heading_level': block_token.Heading.level,
        'fence_open_info': list(block_token.CodeFence._open_info) if block_token.CodeFence._open_info else None,
        'html_end_cond': block_token.HtmlBlock._end_cond,
    }
    pyg = sys.modules.get('mistletoe.contrib.pygments_renderer')
    if pyg is not None:
        fp['pygments_style'] = getattr(pyg.PygmentsRenderer.formatter.style, '__name__', '?')
    if r is not None:
        d = getattr(r, '__dict__', {})
        if '_suppress_ptag_stack' in d:
            fp['ptag_stack'] = list(d['_suppress_ptag_stack'])
        if 'packages' in d:
            fp['packages'] = list(d['packages'])
        for name in ('listTokens', 'lastChildOfQuotes', 'firstChildOfListItems'):
            if name in d:
                fp[name] = len(d[name]) if name != 'listTokens' else list(d[name])
        if '_headings' in d:
            fp['headings_n'] = min(len(d['_headings']), 3)
        if 'footnotes' in d:
            fp['footnotes_n'] = min(len(d['footnotes']), 3)
    return fp


def implicated(run_fp, oracle_fp):
    """Durable fields on which the run's state before the op differs from the pristine state before the op."""
    out = {}
    for k in DURABLE_FIELDS:
        a, b = run_fp.get(k), oracle_fp.get(k)
        if a != b:
            out[k] = a
    return out


# ---------------------------------------------------------------------------------------------
# executor

def _outcome(fn, reclimit=None):
    if reclimit is None:
        try:
            return ('ok', fn())
        except (Exception, InjectedAbort) as e:
            return core.norm_exc(e)
    old = sys.getrecursionlimit()
    sys.setrecursionlimit(core.stack_depth() + int(reclimit))
    try:
        try:
            return ('ok', fn())
        except (Exception, InjectedAbort) as e:
            return core.norm_exc(e)
    finally:
        sys.setrecursionlimit(old)


def _render_class(rid, opts):
    cls = renderer_class(rid)
    if opts:
        return functools.partial(cls, **opts)
    return cls


def execute(history, emit):
    """
    Run a history against the real library. emit(record) per observation; record keys:
    b (block index), s (step index or -1), kind, outcome, pre (fingerprint before), post (after).
    """
    for bi, block in enumerate(history):
        k = block['k']
        if k == 'MD':
            pre = fingerprint()
            out = _outcome(lambda: mistletoe.markdown(block['doc'], _render_class(block['R'], block.get('opts'))),
                           block.get('reclimit'))
            emit({'b': bi, 's': -1, 'kind': 'MD', 'outcome': out, 'pre': pre, 'post': fingerprint()})
        elif k == 'BARE':
            pre = fingerprint()
            out = _outcome(lambda: json.dumps(get_ast(mistletoe.Document(block['doc'])), sort_keys=True),
                           block.get('reclimit'))
            emit({'b': bi, 's': -1, 'kind': 'BARE', 'outcome': out, 'pre': pre, 'post': fingerprint()})
        elif k == 'SCHEME':
            pre = fingerprint()

            def run_scheme():
                from mistletoe.contrib import scheme
                with scheme.Scheme() as r:
                    return repr(r.render(scheme.Program([block['doc']])))
            out = _outcome(run_scheme)
            emit({'b': bi, 's': -1, 'kind': 'SCHEME', 'outcome': out, 'pre': pre, 'post': fingerprint()})
        elif k == 'CTX':
            _exec_ctx(bi, block, emit)
        else:
            raise core.HarnessError('unknown block kind %r' % (k,))
        if k != 'BARE':
            # invariant 2: after a context exits the active token sets are exactly the defaults
            fp = fingerprint()
            emit({'b': bi, 's': -2, 'kind': 'EXIT', 'outcome': ('ok', [fp['block_types'], fp['span_types']]),
                  'pre': fp, 'post': fp})


class _Propagate(Exception):
    pass


def _exec_ctx(bi, block, emit):
    rid, opts = block['R'], block.get('opts') or {}
    cls = renderer_class(rid)
    steps = block.get('steps') or []
    pre = fingerprint()
    try:
        r = cls(**opts)
    except Exception as e:
        emit({'b': bi, 's': -1, 'kind': 'ENTER', 'outcome': core.norm_exc(e), 'pre': pre, 'post': fingerprint()})
        # a caller whose constructor raised never entered the with-block; nothing to exit
        return
    emit({'b': bi, 's': -1, 'kind': 'ENTER', 'outcome': ('ok', 'entered'), 'pre': pre, 'post': fingerprint(r)})
    propagate = block.get('exit') == 'propagate'
    nested_seen = False
    unwinding = []
    try:
        with r:
            for si, step in enumerate(steps):
                sk = step['k']
                if sk == 'ADD':
                    register(step['tok'], step['pos'], rid, r)
                elif sk == 'REMOVE':
                    unregister(step['tok'])
                elif sk == 'NEST':
                    # another renderer's context opened and closed while this one is still active. The tree ties
                    # parsing to ONE active renderer, so outputs produced while nested (and by the outer renderer
                    # afterwards) are outside the property and are not compared; what IS asserted is the property's
                    # second sentence, literally: after a renderer's context exits the token sets are the defaults.
                    nested_seen = True
                    _exec_nested(bi, si, step, emit)
                elif sk == 'RENDER':
                    pre = fingerprint(r)
                    caught = []

                    phase = ['parse']

                    def do():
                        try:
                            if rid == 'Scheme':
                                phase[0] = 'render'
                                return repr(r.render(sys.modules['mistletoe.contrib.scheme'].Program([step['doc']])))
                            d = mistletoe.Document(step['doc'])
                            if step.get('mutate'):
                                _tweak_tree(d)
                            phase[0] = 'render'
                            return r.render(d)
                        except (Exception, InjectedAbort) as e:
                            caught.append(e)
                            raise
                    out = _outcome(do, step.get('reclimit'))
                    rec = {'b': bi, 's': si, 'kind': 'RENDER', 'outcome': out, 'pre': pre, 'post': fingerprint(r)}
                    if out[0] == 'exc':
                        rec['phase'] = phase[0]
                    if nested_seen:
                        rec['nocompare'] = True
                    emit(rec)
                    if out[0] == 'exc' and propagate and si == len(steps) - 1:
                        # let the exception unwind the with-block, as a caller without try/except would
                        unwinding.append(caught[0])
                        raise caught[0]
                elif sk == 'TOC':
                    # TocRenderer's documented second product: the table of contents of what this instance rendered
                    pre = fingerprint(r)
                    out = _outcome(lambda: r.render(r.toc))
                    rec = {'b': bi, 's': si, 'kind': 'TOC', 'outcome': out, 'pre': pre, 'post': fingerprint(r)}
                    if nested_seen:
                        rec['nocompare'] = True
                    emit(rec)
                else:
                    raise core.HarnessError('unknown step kind %r' % (sk,))
    except core.HarnessError:
        raise
    except (Exception, InjectedAbort) as e:
        if not (unwinding and e is unwinding[0]):
            # leaving the with-block raised something of its own (an __exit__ that fails): an observation like any other
            fp = fingerprint()
            emit({'b': bi, 's': -3, 'kind': 'LEAVE', 'outcome': core.norm_exc(e), 'pre': fp, 'post': fp})


def _tweak_tree(tok):
    """The documented 'parse, tweak the tree, render' use (dev-guide recipe): the caller edits tokens of ITS document in
    place - text upper-cased, headings demoted, link targets rewritten. Must never show in any other document."""
    children = getattr(tok, 'children', None)
    if type(tok).__name__ == 'RawText' and isinstance(getattr(tok, 'content', None), str):
        tok.content = tok.content.upper()
    if type(tok).__name__ in ('Heading', 'SetextHeading') and isinstance(getattr(tok, 'level', None), int):
        tok.level = min(6, tok.level + 1)
    if type(tok).__name__ == 'Link' and isinstance(getattr(tok, 'target', None), str):
        tok.target = tok.target + '?tweaked'
    if children:
        for c in list(children):
            _tweak_tree(c)
    if getattr(tok, 'header', None) is not None and type(tok).__name__ == 'Table':
        _tweak_tree(tok.header)


def _exec_nested(bi, si, step, emit):
    cls = renderer_class(step['R']) if step['R'] != 'Scheme' else sys.modules['mistletoe.contrib.scheme'].Scheme
    pre = fingerprint()
    try:
        inner = cls(**(step.get('opts') or {}))
    except Exception as e:
        emit({'b': bi, 's': si, 'kind': 'NEST-ENTER', 'outcome': core.norm_exc(e), 'pre': pre, 'post': fingerprint(),
              'nocompare': True})
        return
    try:
        with inner:
            for doc in step.get('docs') or []:
                if step['R'] == 'Scheme':
                    out = _outcome(lambda: repr(inner.render(sys.modules['mistletoe.contrib.scheme'].Program([doc]))))
                else:
                    out = _outcome(lambda: inner.render(mistletoe.Document(doc)))
                emit({'b': bi, 's': si, 'kind': 'NEST-RENDER', 'outcome': out, 'pre': pre, 'post': fingerprint(inner),
                      'nocompare': True})
    except Exception:
        pass
    fp = fingerprint()
    emit({'b': bi, 's': si, 'kind': 'EXIT', 'outcome': ('ok', [fp['block_types'], fp['span_types']]), 'pre': fp, 'post': fp})


# ---------------------------------------------------------------------------------------------
# oracle keys: the one-operation history whose outcome in a pristine process is the expected outcome

def oracle_history(history, rec, records=None):
    """For an observation record of `history`, the minimal history that a fresh interpreter would run.
    Returns None when the observation has no history-free reference (then it is not compared)."""
    block = history[rec['b']]
    kind = rec['kind']
    if kind == 'TOC':
        # The table of contents is by design a function of every document this instance rendered. Reference: a pristine
        # process in which the same instance renders the same documents, minus those whose PARSE raised (they never reached
        # the renderer and contribute nothing). Documents that raised while rendering are kept (headings rendered before the
        # exception are legitimately listed). No reference if a step ran under a lowered recursion limit.
        outcomes = {r['s']: r for r in (records or []) if r['b'] == rec['b'] and r['kind'] == 'RENDER'}
        steps = []
        for si, st in enumerate(block['steps'][:rec['s']]):
            if st['k'] in ('ADD', 'REMOVE'):
                steps.append(st)
            elif st['k'] == 'RENDER':
                if st.get('reclimit') or si not in outcomes:
                    return None
                o = outcomes[si]
                if o['outcome'][0] == 'exc' and o.get('phase') == 'parse':
                    continue
                steps.append(st)
            elif st['k'] == 'TOC':
                # rendering the table of contents is itself an operation of this instance (a toc entry that parses as a
                # heading is appended to the collected headings again), so earlier TOC steps belong to the reference
                steps.append(st)
            else:
                return None
        return [{'k': 'CTX', 'R': block['R'], 'opts': block.get('opts') or {}, 'exit': 'normal', 'steps': steps + [{'k': 'TOC'}]}]
    if kind in ('MD', 'BARE', 'SCHEME'):
        return [dict(block)]
    if kind == 'LEAVE':
        return [{'k': 'CTX', 'R': block['R'], 'opts': block.get('opts') or {}, 'exit': 'normal',
                 'steps': [st for st in block['steps'] if st['k'] in ('ADD', 'REMOVE')]}]
    if kind == 'ENTER':
        return [{'k': 'CTX', 'R': block['R'], 'opts': block.get('opts') or {}, 'exit': 'normal', 'steps': []}]
    if kind == 'RENDER':
        steps = block['steps']
        prefix = [s for s in steps[:rec['s']] if s['k'] in ('ADD', 'REMOVE')]
        return [{'k': 'CTX', 'R': block['R'], 'opts': block.get('opts') or {}, 'exit': 'normal',
                 'steps': prefix + [steps[rec['s']]]}]
    raise core.HarnessError('no oracle for kind %r' % (kind,))


def oracle_pick(kind, records):
    """The record of the oracle history that corresponds to the observation."""
    want = [r for r in records if r['kind'] == kind]
    if not want and kind == 'LEAVE':
        last = records[-1]
        return {'kind': 'LEAVE', 'outcome': ('ok', 'left'), 'pre': last['post'], 'post': last['post']}
    if not want:
        # e.g. ENTER failed in the pristine process too: then RENDER has no oracle record;
        # the ENTER record is the answer for ENTER, and a missing RENDER maps to the ENTER outcome
        ent = [r for r in records if r['kind'] == 'ENTER']
        if ent:
            return ent[-1]
        raise core.HarnessError('oracle history produced no %s record' % kind)
    return want[-1]
