"""
History generators for C11: the systematic fault enumeration and the seeded random exploration.
Pure functions of (seed, index, tier); no mistletoe calls (token-list lengths are read from the
imported modules, which is data, not behaviour).
"""
import random

from . import core
from . import c11_docs as D
from . import c11_world as W

_PROBE_NAMES = sorted(D.PROBES)
_ATOM_NAMES = sorted(D.ATOM_PROBES)
BLOCK_PLACEMENTS = ['top', 'quote', 'list', 'loose_list', 'quote_in_list', 'list_in_quote', 'after_para']
PARA_THEN = ['para_then_table', 'para_then_heading', 'para_then_fence', 'para_then_html', 'para_then_list', 'para_then_quote']
SPAN_PLACEMENTS = D.PLACEMENTS
RECLIMITS = [60, 100, 160]


def _extras(rid, opts):
    """(#block tokens, #span tokens) active inside a context of this renderer: defaults + the renderer's extras."""
    nb, ns = len(W.DEFAULT_BLOCK_NAMES), len(W.DEFAULT_SPAN_NAMES)
    html_tokens = (opts or {}).get('process_html_tokens', True)
    if rid in ('Html', 'Toc', 'Pygments'):
        return (nb + 1, ns + 1) if html_tokens else (nb, ns)
    if rid == 'GithubWiki':
        return (nb + 1, ns + 2) if html_tokens else (nb, ns + 1)
    if rid == 'MathJax':
        return (nb + 1, ns + 2) if html_tokens else (nb, ns + 1)
    if rid == 'LaTeX':
        return nb, ns + 1
    if rid == 'Markdown':
        return nb - 1 + 3, ns + 1
    if rid == 'Jira':
        return nb + 1, ns + 1
    if rid == 'XWiki20':
        return nb + 1, ns + 3
    if rid == 'Ast':
        return nb, ns
    if rid == 'UserHtml':
        return (nb + 2, ns + 2) if html_tokens else (nb + 1, ns + 1)
    if rid == 'UserMarkdown':
        return nb - 1 + 3, ns + 2
    if rid == 'Scheme':
        return 0, 4
    raise ValueError(rid)


def fault_variants(tier, seed):
    """
    The enumerated fault space. Each variant is (kind, ctx_block_steps..., meta). In the quick tier the
    parse-phase variants are assigned renderers round-robin (every variant still appears, under one
    renderer); thorough enumerates the full product.
    """
    variants = []
    rids = W.RENDERER_IDS
    full = tier == 'thorough'
    rot = seed % len(rids)

    def renderers_for(i):
        if full:
            return rids
        return [rids[(i + rot) % len(rids)]]

    i = 0
    # F1: block-token faults at every index of the block list
    for tok in W.FAULT_BLOCK:
        for placement in BLOCK_PLACEMENTS + PARA_THEN:
            if tok != 'FaultBlockInterrupt' and placement == 'after_para':
                continue
            if tok == 'FaultBlockInterrupt' and placement in PARA_THEN:
                continue
            doc = D.fault_doc(tok, placement)
            for rid in rids:
                nb, _ = _extras(rid, {})
                for pos in range(nb + 1):
                    i += 1
                    if rid not in renderers_for(i):
                        continue
                    variants.append({'kind': 'F1', 'R': rid, 'opts': {}, 'tok': tok, 'pos': pos, 'doc': doc,
                                     'site': tok + '@' + placement})
    # F2: span-token faults at every index before the fallback token
    for tok in W.FAULT_SPAN:
        for placement in SPAN_PLACEMENTS:
            doc = D.fault_doc(tok, placement)
            for rid in rids:
                _, ns = _extras(rid, {})
                for pos in range(ns):
                    i += 1
                    if rid not in renderers_for(i):
                        continue
                    variants.append({'kind': 'F2', 'R': rid, 'opts': {}, 'tok': tok, 'pos': pos, 'doc': doc,
                                     'site': tok + '@' + placement})
    # F3a: RecursionError at a chosen relative depth, no custom token
    for nk in D.NEST_KINDS:
        for lim in RECLIMITS:
            for frac in ((1.0, 0.5, 0.3) if full else (1.0, 0.4)):
                for rid in rids:
                    i += 1
                    if rid not in renderers_for(i):
                        continue
                    depth = max(8, int(lim * frac))
                    variants.append({'kind': 'F3a', 'R': rid, 'opts': {}, 'tok': None, 'pos': None,
                                     'doc': D.nest(nk, depth), 'reclimit': lim, 'site': '%s@%d/%d' % (nk, depth, lim)})
    # F3b: documents that crash the inline scanner on their own
    for name, doc in sorted(D.CRASHERS.items()):
        for rid in rids:
            i += 1
            if rid not in renderers_for(i):
                continue
            variants.append({'kind': 'F3b', 'R': rid, 'opts': {}, 'tok': None, 'pos': None, 'doc': doc, 'site': name})
    # F4: render-phase faults (always under every renderer they apply to: the stranded state is per renderer)
    for rid in rids:
        if rid == 'Ast':
            continue   # AstRenderer never consults render_map, a render function cannot fire
        _, ns = _extras(rid, {})
        for placement in SPAN_PLACEMENTS:
            variants.append({'kind': 'F4', 'R': rid, 'opts': {}, 'tok': 'RenderFaultSpan', 'pos': 1,
                             'doc': D.fault_doc('RenderFaultSpan', placement), 'site': 'RenderFaultSpan@' + placement})
            variants.append({'kind': 'F4', 'R': rid, 'opts': {}, 'tok': 'RenderAbortSpan', 'pos': 1,
                             'doc': D.fault_doc('RenderAbortSpan', placement), 'site': 'RenderAbortSpan@' + placement})
        for placement in BLOCK_PLACEMENTS[:-1]:
            variants.append({'kind': 'F4', 'R': rid, 'opts': {}, 'tok': 'RenderFaultBlock', 'pos': 0,
                             'doc': D.fault_doc('RenderFaultBlock', placement), 'site': 'RenderFaultBlock@' + placement})
    for placement in SPAN_PLACEMENTS:
        variants.append({'kind': 'F4', 'R': 'LaTeX', 'opts': {}, 'tok': None, 'pos': None,
                         'doc': D.natural_render_fault('LaTeX', placement), 'site': 'latex_verb@' + placement})
        variants.append({'kind': 'F4', 'R': 'Pygments', 'opts': {'fail_on_unsupported_language': True}, 'tok': None,
                         'pos': None, 'doc': D.natural_render_fault('Pygments', placement), 'site': 'pygments@' + placement})
    for rid in ('XWiki20', 'Jira'):
        for placement in ('quote', 'list', 'loose_list', 'quote_in_list', 'list_in_quote', 'nested'):
            variants.append({'kind': 'F4', 'R': rid, 'opts': {}, 'tok': None, 'pos': None,
                             'doc': D.natural_render_fault(rid, placement), 'site': 'natural@' + placement})
    return variants


def _fault_steps(v):
    steps = []
    if v['tok']:
        steps.append({'k': 'ADD', 'tok': v['tok'], 'pos': v['pos']})
    r = {'k': 'RENDER', 'doc': v['doc'], 'fault': v['kind']}
    if v.get('reclimit'):
        r['reclimit'] = v['reclimit']
    steps.append(r)
    return steps


MODES = ['same_instance', 'new_instance', 'other_class', 'bare']


def systematic_history(v, mode, rotation):
    """fault block, then every sentinel probe, the `rotation`-th one first."""
    names = D.SENTINELS[rotation:] + D.SENTINELS[:rotation]
    probes = [D.PROBES[n] for n in names]
    fsteps = _fault_steps(v)
    rid, opts = v['R'], v['opts']
    if mode == 'same_instance':
        return [{'k': 'CTX', 'R': rid, 'opts': opts, 'exit': 'normal',
                 'steps': fsteps + [{'k': 'RENDER', 'doc': p} for p in probes]}]
    exit_mode = 'propagate' if rotation % 2 else 'normal'
    first = {'k': 'CTX', 'R': rid, 'opts': opts, 'exit': exit_mode, 'steps': fsteps}
    if mode == 'new_instance':
        return [first, {'k': 'CTX', 'R': rid, 'opts': opts, 'exit': 'normal',
                        'steps': [{'k': 'RENDER', 'doc': p} for p in probes]}]
    if mode == 'other_class':
        h = [first]
        for j, p in enumerate(probes):
            other = W.RENDERER_IDS[(rotation + j) % len(W.RENDERER_IDS)]
            h.append({'k': 'MD', 'R': other, 'opts': {}, 'doc': p})
        return h
    if mode == 'bare':
        return [first] + [{'k': 'BARE', 'doc': p} for p in probes]
    raise ValueError(mode)


def _walk(n, stride, start):
    """i -> i+stride (mod n) from `start` until it closes: visits the ordered pair (x_i, x_{i+stride}) for every i of the cycle."""
    seq, j = [start], (start + stride) % n
    while j != start:
        seq.append(j)
        j = (j + stride) % n
    seq.append(start)
    return seq


def _docs_history(rid, opts, same_instance, docs):
    if same_instance:
        return [{'k': 'CTX', 'R': rid, 'opts': opts, 'exit': 'normal', 'steps': [{'k': 'RENDER', 'doc': d} for d in docs]}]
    return [{'k': 'MD', 'R': rid, 'opts': opts, 'doc': d} for d in docs]


_BASE_NAMES = [n for n in sorted(D.PROBES) if n not in D.INTERRUPT_PROBES]


def _build_pair(rid, oi, same_instance, stride, start, full=True):
    names = _PROBE_NAMES if full else _BASE_NAMES
    return _docs_history(rid, W.OPTIONS[rid][oi], same_instance, [D.PROBES[names[x]] for x in _walk(len(names), stride, start)])


_SPEC = []


def _build_spec(rid, stride, start):
    return _docs_history(rid, {}, bool(stride % 2), [_SPEC[x] for x in _walk(len(_SPEC), stride, start)])


def pair_histories(tier):
    """
    Fault-free enumeration: every ordered pair (d1, d2) of probes rendered back to back, by one instance
    and by two separate calls, under every renderer (thorough: every option set). Entries are lazy: (batch, builder).
    """
    import functools
    import math
    out = []
    for rid in W.RENDERER_IDS:
        # quick: the interrupt x indentation family is paired with everything under the two renderers that show the parse
        # most directly (AST, Markdown round trip); under the others only the base probes are paired
        full = tier == 'thorough' or rid in ('Ast', 'Markdown')
        n = len(_PROBE_NAMES) if full else len(_BASE_NAMES)
        for oi, opts in enumerate(W.OPTIONS[rid]):
            if tier != 'thorough' and oi > 0:
                continue
            for stride in range(1, n + 1):
                for start in range(math.gcd(n, stride)):
                    # quick: each ordered pair in one of the two modes (by stride parity); thorough: in both
                    if tier == 'thorough' or stride % 2 == 1 or opts:
                        out.append(('pairs_same_instance', functools.partial(_build_pair, rid, oi, True, stride, start, full)))
                    if not opts and (tier == 'thorough' or stride % 2 == 0):
                        out.append(('pairs_separate_calls', functools.partial(_build_pair, rid, oi, False, stride, start, full)))
    return out


def spec_pair_histories(tier, seed, spec):
    """Fault-free: documents of the specification corpus (input data only) rendered back to back. thorough: every ordered
    pair under every renderer (stride walks; mode alternates with the stride); quick: four seeded strides per renderer."""
    import functools
    import math
    _SPEC[:] = spec
    n = len(spec)
    out = []
    if n < 2:
        return out
    for ri, rid in enumerate(W.RENDERER_IDS):
        if tier == 'thorough':
            strides = range(1, n + 1)
        else:
            strides = sorted({1 + 2 * ((seed * 7 + ri * 131) % (n // 2)), 2 + 2 * ((seed * 11 + ri * 57) % (n // 2 - 1))})   # one odd, one even
        for stride in strides:
            for start in range(math.gcd(n, stride)):
                out.append(('spec_pairs', functools.partial(_build_spec, rid, stride, start)))
    return out


def atom_pair_histories(tier):
    """For every atom, every ordered pair of syntactic positions, under every renderer (thorough: every option set). All stride
    walks of one parity are joined into one history (odd strides: one renderer instance; even strides: separate calls)."""
    out = []
    positions = sorted(D.ATOM_POSITIONS)
    n = len(positions)
    for rid in W.RENDERER_IDS:
        for oi, opts in enumerate(W.OPTIONS[rid]):
            if tier != 'thorough' and oi > 0:
                continue
            for ai in range(len(D.ATOMS)):
                docs_all = [D.ATOM_PROBES['atom%d_%s' % (ai, p)] for p in positions]
                for parity in (1, 0):
                    seq = []
                    for stride in range(1, n + 1):
                        if stride % 2 != parity:
                            continue
                        seen = set()
                        for start in range(n):
                            if start in seen:
                                continue
                            j = start
                            while j not in seen:
                                seen.add(j)
                                seq.append(j)
                                j = (j + stride) % n
                            seq.append(j)
                    docs = [docs_all[x] for x in seq]
                    if parity:
                        out.append(('atom_pairs', [{'k': 'CTX', 'R': rid, 'opts': opts, 'exit': 'normal',
                                                    'steps': [{'k': 'RENDER', 'doc': d} for d in docs]}]))
                    else:
                        out.append(('atom_pairs', [{'k': 'MD', 'R': rid, 'opts': opts, 'doc': d} for d in docs]))
    return out


def _build_marathon(k, n_ops):
    """One very long fault-free history: thousands of operations in one process, walking the probes, atoms and same-key
    families under rotating renderers, alternating one long-lived instance with separate calls. Reaches whatever only
    changes after the N-th use (size-limited caches that start evicting, counters, 'first time' flags)."""
    docs = [D.PROBES[n] for n in _PROBE_NAMES] + [D.ATOM_PROBES[n] for n in _ATOM_NAMES] + \
           [d for f in sorted(D.SAMEKEY_FAMILIES) for d in D.SAMEKEY_FAMILIES[f]]
    history = []
    i = k * 7919
    done = 0
    block = 0
    while done < n_ops:
        rid = W.RENDERER_IDS[(k + block) % len(W.RENDERER_IDS)]
        opts = W.OPTIONS[rid][(k + block // len(W.RENDERER_IDS)) % len(W.OPTIONS[rid])]
        chunk = [docs[(i + j * (1 + block % 5)) % len(docs)] for j in range(60)]
        i += 61
        if block % 3 == 2:
            history += [{'k': 'MD', 'R': rid, 'opts': opts, 'doc': d} for d in chunk[:20]]
            done += 20
        else:
            history.append({'k': 'CTX', 'R': rid, 'opts': opts, 'exit': 'normal', 'steps': [{'k': 'RENDER', 'doc': d} for d in chunk]})
            done += 60
        block += 1
    return history


def marathon_histories(tier):
    import functools
    n, ops = (16, 20000) if tier == 'thorough' else (4, 3000)
    return [('marathon', functools.partial(_build_marathon, k, ops)) for k in range(n)]


def samekey_histories(tier):
    """Every ordered pair inside each 'same key, different truth' family, under every renderer (thorough: every option set),
    by one instance and by separate calls."""
    out = []
    for rid in W.RENDERER_IDS:
        for oi, opts in enumerate(W.OPTIONS[rid]):
            if tier != 'thorough' and oi > 0:
                continue
            for fam in sorted(D.SAMEKEY_FAMILIES):
                docs_all = D.SAMEKEY_FAMILIES[fam]
                n = len(docs_all)
                seq = []
                for stride in range(1, n):
                    for start in range(__import__('math').gcd(n, stride)):
                        seq += _walk(n, stride, start)
                docs = [docs_all[x] for x in seq]
                out.append(('samekey', _docs_history(rid, opts, True, docs)))
                out.append(('samekey', _docs_history(rid, opts, False, docs)))
    return out


def cross_histories(tier):
    """Every ordered pair of renderer configurations (quick: default options; thorough: every option set), plus a bare
    Document as second party: the first renders every sentinel, then the second does. This is the quantifier's
    'enter R1, render, exit, enter R2, render, exit' enumerated over (R1, R2)."""
    configs = [(rid, opts) for rid in W.RENDERER_IDS for oi, opts in enumerate(W.OPTIONS[rid]) if tier == 'thorough' or oi == 0]
    if tier != 'thorough':
        configs.append(('Html', {'process_html_tokens': False}))
    probes = [D.PROBES[n] for n in D.SENTINELS]
    out = []
    all_configs = [(rid, opts) for rid in W.RENDERER_IDS for opts in W.OPTIONS[rid]]
    for i, (r1, o1) in enumerate(all_configs if tier != 'thorough' else []):
        # quick: every ordered pair of option sets of the SAME renderer class (an option of one instance must not reach the next)
        first = {'k': 'CTX', 'R': r1, 'opts': o1, 'exit': 'normal', 'steps': [{'k': 'RENDER', 'doc': p} for p in probes]}
        for j, (r2, o2) in enumerate(all_configs):
            if r2 != r1 or (not o1 and not o2):
                continue
            rot = (i + j) % len(probes)
            ps = probes[rot:] + probes[:rot]
            out.append(('cross', [first, {'k': 'CTX', 'R': r2, 'opts': o2, 'exit': 'normal',
                                          'steps': [{'k': 'RENDER', 'doc': p} for p in ps]}]))
    for i, (r1, o1) in enumerate(configs):
        first = {'k': 'CTX', 'R': r1, 'opts': o1, 'exit': 'normal', 'steps': [{'k': 'RENDER', 'doc': p} for p in probes]}
        for j, (r2, o2) in enumerate(configs):
            rot = (i + j) % len(probes)
            ps = probes[rot:] + probes[:rot]
            out.append(('cross', [first, {'k': 'CTX', 'R': r2, 'opts': o2, 'exit': 'normal',
                                          'steps': [{'k': 'RENDER', 'doc': p} for p in ps]}]))
        out.append(('cross', [first] + [{'k': 'BARE', 'doc': p} for p in probes]))
    return out


def toc_histories(tier):
    """TocRenderer's second product, r.render(r.toc), is parsed OUTSIDE any Document: enumerate every parse-phase fault
    variant between a heading document and the table of contents."""
    out = []
    nb, ns = _extras('Toc', {})
    head = {'k': 'RENDER', 'doc': D.PROBES['toc_refs']}
    for opts in (W.OPTIONS['Toc'] if tier == 'thorough' else W.OPTIONS['Toc'][:1]):
        variants = []
        for tok in W.FAULT_BLOCK:
            for placement in BLOCK_PLACEMENTS:
                if tok != 'FaultBlockInterrupt' and placement == 'after_para':
                    continue
                for pos in range(nb + 1):
                    variants.append({'kind': 'F1', 'tok': tok, 'pos': pos, 'doc': D.fault_doc(tok, placement)})
        for tok in W.FAULT_SPAN:
            for placement in SPAN_PLACEMENTS:
                for pos in range(ns):
                    variants.append({'kind': 'F2', 'tok': tok, 'pos': pos, 'doc': D.fault_doc(tok, placement)})
        for name in sorted(D.CRASHERS):
            variants.append({'kind': 'F3b', 'tok': None, 'pos': None, 'doc': D.CRASHERS[name] + '\n[ref]: /u\n'})
        for tok, pls in (('RenderFaultSpan', SPAN_PLACEMENTS), ('RenderAbortSpan', SPAN_PLACEMENTS), ('RenderFaultBlock', BLOCK_PLACEMENTS[:-1])):
            for placement in pls:
                variants.append({'kind': 'F4', 'tok': tok, 'pos': 0, 'doc': D.fault_doc(tok, placement)})
        for v in variants:
            out.append(('toc', [{'k': 'CTX', 'R': 'Toc', 'opts': opts, 'exit': 'normal',
                                 'steps': [head, {'k': 'TOC'}] + _fault_steps(v) + [{'k': 'TOC'}, {'k': 'RENDER', 'doc': D.PROBES['toc_doc']},
                                                                                   {'k': 'TOC'}]}]))
    return out


def scheme_histories(tier):
    """Scheme rebinds both token lists at construction. Everything that can happen to the active lists while a Scheme context
    is open (a user token added at each position, a fault, another renderer's context opened and closed inside), followed by a
    fresh Scheme context running every program and by ordinary Markdown use."""
    out = []
    progs = [{'k': 'RENDER', 'doc': p} for p in D.SCHEME_PROGRAMS]
    after = [{'k': 'CTX', 'R': 'Scheme', 'opts': {}, 'exit': 'normal', 'steps': progs},
             {'k': 'MD', 'R': 'Html', 'opts': {}, 'doc': D.PROBES['custom']}, {'k': 'BARE', 'doc': D.PROBES['html_script']}]
    k = 0
    for tok in W.BENIGN_SPAN + W.FAULT_SPAN + W.BENIGN_BLOCK[:1]:
        for pos in (range(0, 4) if W.is_span(tok) else [0]):
            for exit_mode in ('normal', 'propagate'):
                k += 1
                steps = [{'k': 'ADD', 'tok': tok, 'pos': pos}] + progs[k % len(progs):] + progs[:k % len(progs)]
                if exit_mode == 'propagate':
                    steps.append({'k': 'RENDER', 'doc': '(undefined-var)'})
                out.append(('scheme', [{'k': 'CTX', 'R': 'Scheme', 'opts': {}, 'exit': exit_mode, 'steps': steps}] + after))
    for inner in W.RENDERER_IDS + ['Scheme']:
        for iopts in (W.OPTIONS[inner] if tier == 'thorough' else W.OPTIONS[inner][:1]):
            docs = ['(+ 1 2)'] if inner == 'Scheme' else [D.PROBES['custom']]
            out.append(('scheme', [{'k': 'CTX', 'R': 'Scheme', 'opts': {}, 'exit': 'normal',
                                    'steps': [progs[0], {'k': 'NEST', 'R': inner, 'opts': iopts, 'docs': docs}, progs[1]]}] + after))
    return out


def mutate_histories(tier):
    """'Parse, tweak the tree, render': a document is parsed, its tokens edited in place by the caller, and rendered; then
    the same and other documents are rendered untouched, by the same instance, by another call and as a bare Document."""
    out = []
    names = _PROBE_NAMES
    for ri, rid in enumerate(W.RENDERER_IDS):
        for oi, opts in enumerate(W.OPTIONS[rid] if tier == 'thorough' else W.OPTIONS[rid][:1]):
            for chunk in range(0, len(names), 12):
                part = [D.PROBES[n] for n in names[chunk:chunk + 12]]
                steps = []
                for p in part:
                    steps += [{'k': 'RENDER', 'doc': p, 'mutate': True}, {'k': 'RENDER', 'doc': p}]
                other = W.RENDERER_IDS[(ri + 1 + chunk) % len(W.RENDERER_IDS)]
                out.append(('mutate', [{'k': 'CTX', 'R': rid, 'opts': opts, 'exit': 'normal', 'steps': steps}]
                            + [{'k': 'MD', 'R': other, 'opts': {}, 'doc': p} for p in part[:6]]
                            + [{'k': 'BARE', 'doc': p} for p in part[6:]]))
    return out


def nest_histories(tier):
    """Every ordered pair (outer, inner) of renderers (plus Scheme as inner): inner context opened and closed inside the
    outer one; then ordinary, compared operations to show that everything is back to normal afterwards."""
    out = []
    names = D.SENTINELS
    inners = W.RENDERER_IDS + ['Scheme']
    k = 0
    for outer in W.RENDERER_IDS:
        for inner in inners:
            for oi, opts in enumerate(W.OPTIONS[outer] if tier == 'thorough' else W.OPTIONS[outer][:1]):
                k += 1
                p1, p2, p3 = (D.PROBES[names[(k + j) % len(names)]] for j in range(3))
                docs = ['(+ 1 2)'] if inner == 'Scheme' else [p2]
                iopts = {} if inner == 'Scheme' else W.OPTIONS[inner][k % len(W.OPTIONS[inner])]
                h = [{'k': 'CTX', 'R': outer, 'opts': opts, 'exit': 'normal',
                      'steps': [{'k': 'RENDER', 'doc': p1}, {'k': 'NEST', 'R': inner, 'opts': iopts, 'docs': docs},
                                {'k': 'RENDER', 'doc': p3}]},
                     {'k': 'MD', 'R': outer, 'opts': {}, 'doc': p3},
                     {'k': 'BARE', 'doc': p1},
                     {'k': 'CTX', 'R': inner if inner != 'Scheme' else 'Html', 'opts': {}, 'exit': 'normal',
                      'steps': [{'k': 'RENDER', 'doc': p2}]}]
                out.append(('nested', h))
    return out


def systematic_count(tier, seed):
    return len(fault_variants(tier, seed)) * len(MODES) * len(D.SENTINELS)


# ---------------------------------------------------------------------------------------------
# seeded random exploration

def _pick_doc(rng, thorough, extra_docs):
    x = rng.random()
    names = _PROBE_NAMES
    if extra_docs and x < 0.25:
        return extra_docs[rng.randrange(len(extra_docs))]
    if x < 0.33:
        return D.ATOM_PROBES[_ATOM_NAMES[rng.randrange(len(_ATOM_NAMES))]]
    if x < (0.60 if thorough else 0.48):
        return D.synth_doc(rng)
    if x < 0.8 or not thorough:
        return D.PROBES[names[rng.randrange(len(names))]]
    # assembled document: a few probes glued, optionally wrapped
    parts = [D.PROBES[names[rng.randrange(len(names))]] for _ in range(rng.randint(2, 3))]
    doc = '\n'.join(p if p.endswith('\n') else p + '\n' for p in parts)
    w = rng.random()
    if w < 0.2:
        doc = ''.join('> ' + l + '\n' for l in doc.split('\n')[:-1])
    elif w < 0.4:
        lines = doc.split('\n')[:-1]
        doc = '- ' + lines[0] + '\n' + ''.join(('  ' + l if l else '') + '\n' for l in lines[1:])
    return doc


_SENTINEL_FOR = {   # which probe shows the state a fault kind can strand
    'F1': ['setext2', 'setext1', 'plain', 'ref_shortcut'],
    'F2': ['plain', 'plain_em', 'code', 'setext2', 'entity_def'],
    'F3a': ['setext2', 'list_tight', 'plain', 'quote'],
    'F3b': ['plain', 'code', 'setext2'],
    'F4': ['list_tight', 'list_loose', 'para2', 'plain', 'quote', 'list_nested', 'list_para'],
}


def _random_fault(rng, rid, opts, kinds):
    """Steps that inject one fault inside a context of (rid, opts); returns (steps, kind) or (None, None)."""
    kind = kinds[rng.randrange(len(kinds))]
    nb, ns = _extras(rid, opts)
    if kind == 'F1':
        tok = W.FAULT_BLOCK[rng.randrange(len(W.FAULT_BLOCK))]
        pls = BLOCK_PLACEMENTS + (PARA_THEN if tok != 'FaultBlockInterrupt' else [])
        placement = pls[rng.randrange(len(pls))]
        v = {'kind': kind, 'tok': tok, 'pos': rng.randint(0, nb), 'doc': D.fault_doc(tok, placement)}
    elif kind == 'F2':
        tok = W.FAULT_SPAN[rng.randrange(len(W.FAULT_SPAN))]
        placement = SPAN_PLACEMENTS[rng.randrange(len(SPAN_PLACEMENTS))]
        v = {'kind': kind, 'tok': tok, 'pos': rng.randint(0, ns - 1), 'doc': D.fault_doc(tok, placement)}
    elif kind == 'F3a':
        lim = RECLIMITS[rng.randrange(len(RECLIMITS))]
        nk = D.NEST_KINDS[rng.randrange(len(D.NEST_KINDS))]
        depth = rng.randint(max(6, lim // 5), lim)
        v = {'kind': kind, 'tok': None, 'pos': None, 'doc': D.nest(nk, depth), 'reclimit': lim}
    elif kind == 'F3b':
        names = sorted(D.CRASHERS)
        v = {'kind': kind, 'tok': None, 'pos': None, 'doc': D.CRASHERS[names[rng.randrange(len(names))]]}
    else:
        if rid == 'Ast':
            return None, None
        natural = []
        if rid == 'LaTeX':
            natural.append('LaTeX')
        if rid == 'Pygments' and (opts or {}).get('fail_on_unsupported_language'):
            natural.append('Pygments')
        if rid in ('XWiki20', 'Jira'):
            natural.append(rid)
        if natural and rng.random() < 0.5:
            placement = SPAN_PLACEMENTS[rng.randrange(len(SPAN_PLACEMENTS))]
            v = {'kind': kind, 'tok': None, 'pos': None, 'doc': D.natural_render_fault(natural[0], placement)}
        elif rng.random() < 0.6:
            placement = SPAN_PLACEMENTS[rng.randrange(len(SPAN_PLACEMENTS))]
            tok = 'RenderFaultSpan' if rng.random() < 0.6 else 'RenderAbortSpan'
            v = {'kind': kind, 'tok': tok, 'pos': rng.randint(0, ns - 1), 'doc': D.fault_doc(tok, placement)}
        else:
            placement = BLOCK_PLACEMENTS[rng.randrange(len(BLOCK_PLACEMENTS) - 1)]
            v = {'kind': kind, 'tok': 'RenderFaultBlock', 'pos': rng.randint(0, nb),
                 'doc': D.fault_doc('RenderFaultBlock', placement)}
    return _fault_steps(v), kind


def random_history(rng, tier, fault_free=False, extra_docs=None):
    thorough = tier == 'thorough'
    # swarm: what this run is allowed to do
    all_kinds = ['F1', 'F2', 'F3a', 'F3b', 'F4']
    kinds = [] if fault_free else [k for k in all_kinds if rng.random() < 0.5]
    if not fault_free and not kinds:
        kinds = [all_kinds[rng.randrange(len(all_kinds))]]
    rids = [r for r in W.RENDERER_IDS if rng.random() < 0.5] or [W.RENDERER_IDS[rng.randrange(len(W.RENDERER_IDS))]]
    p_fault = rng.choice([0.1, 0.25, 0.5]) if kinds else 0.0
    p_add = rng.choice([0.0, 0.15, 0.35])
    use_scheme = rng.random() < 0.3
    p_nest = 0.08 if rng.random() < 0.25 else 0.0
    p_remove = 0.1 if rng.random() < 0.25 else 0.0
    p_mutate = 0.3 if rng.random() < 0.25 else 0.0
    early_fault = bool(kinds) and rng.random() < 0.34
    max_blocks = 40 if thorough and rng.random() < 0.15 else 12
    n_blocks = rng.randint(2, max_blocks)
    history = []
    hint = None       # probe names that would show the last stranded state
    for bi in range(n_blocks):
        x = rng.random()
        rid = rids[rng.randrange(len(rids))]

        def doc():
            nonlocal hint
            if hint and rng.random() < 0.7:
                name = hint[rng.randrange(len(hint))]
                hint = None
                return D.PROBES[name]
            return _pick_doc(rng, thorough, extra_docs)
        if use_scheme and x < 0.03:
            history.append({'k': 'SCHEME', 'doc': D.SCHEME_PROGRAMS[rng.randrange(len(D.SCHEME_PROGRAMS))]})
        elif use_scheme and x < 0.08:
            steps = []
            for _ in range(rng.randint(1, 4)):
                y = rng.random()
                if y < 0.25:
                    tok = (W.BENIGN_SPAN + (W.FAULT_SPAN if kinds else []))[rng.randrange(len(W.BENIGN_SPAN) + (len(W.FAULT_SPAN) if kinds else 0))]
                    steps.append({'k': 'ADD', 'tok': tok, 'pos': rng.randint(0, 3)})
                elif y < 0.40:
                    inner = W.RENDERER_IDS[rng.randrange(len(W.RENDERER_IDS))]
                    steps.append({'k': 'NEST', 'R': inner, 'opts': W.OPTIONS[inner][rng.randrange(len(W.OPTIONS[inner]))],
                                  'docs': [D.PROBES['custom']]})
                else:
                    steps.append({'k': 'RENDER', 'doc': D.SCHEME_PROGRAMS[rng.randrange(len(D.SCHEME_PROGRAMS))]})
            history.append({'k': 'CTX', 'R': 'Scheme', 'opts': {}, 'exit': 'normal', 'steps': steps})
        elif x < 0.30:
            opts = {}
            if rng.random() < 0.3:
                opts = W.OPTIONS[rid][rng.randrange(len(W.OPTIONS[rid]))]
            b = {'k': 'MD', 'R': rid, 'opts': opts, 'doc': doc()}
            if 'F3a' in kinds and rng.random() < p_fault / 2:
                lim = RECLIMITS[rng.randrange(len(RECLIMITS))]
                b['doc'] = D.nest(D.NEST_KINDS[rng.randrange(len(D.NEST_KINDS))], rng.randint(max(6, lim // 5), lim))
                b['reclimit'] = lim
                b['fault'] = 'F3a'
                hint = list(_SENTINEL_FOR['F3a'])
            elif 'F3b' in kinds and rng.random() < p_fault / 2:
                names = sorted(D.CRASHERS)
                b['doc'] = D.CRASHERS[names[rng.randrange(len(names))]]
                b['fault'] = 'F3b'
                hint = list(_SENTINEL_FOR['F3b'])
            history.append(b)
        elif x < 0.42:
            history.append({'k': 'BARE', 'doc': doc()})
        else:
            opts = W.OPTIONS[rid][rng.randrange(len(W.OPTIONS[rid]))]
            steps = []
            nb, ns = _extras(rid, opts)
            n_steps = rng.randint(1, 6)
            last_fault = False
            for si in range(n_steps):
                y = rng.random()
                last_fault = False
                force = early_fault and bi < 2 and si == 0
                if kinds and (force or y < p_fault):
                    fsteps, kind = _random_fault(rng, rid, opts, kinds)
                    if fsteps:
                        steps.extend(fsteps)
                        hint = list(_SENTINEL_FOR[kind])
                        last_fault = True
                        continue
                if p_nest and rng.random() < p_nest:
                    inner = (W.RENDERER_IDS + ['Scheme'])[rng.randrange(len(W.RENDERER_IDS) + 1)]
                    steps.append({'k': 'NEST', 'R': inner,
                                  'opts': {} if inner == 'Scheme' else W.OPTIONS[inner][rng.randrange(len(W.OPTIONS[inner]))],
                                  'docs': ['(+ 1 2)'] if inner == 'Scheme' else [doc() for _ in range(rng.randint(0, 2))]})
                    continue
                if p_remove and rng.random() < p_remove:
                    if rng.random() < 0.5:
                        steps.append({'k': 'REMOVE', 'tok': W.BUILTIN_REMOVABLE_BLOCK[rng.randrange(len(W.BUILTIN_REMOVABLE_BLOCK))]})
                        nb -= 1
                    else:
                        steps.append({'k': 'REMOVE', 'tok': W.BUILTIN_REMOVABLE_SPAN[rng.randrange(len(W.BUILTIN_REMOVABLE_SPAN))]})
                        ns -= 1
                    continue
                if y < p_fault + p_add:
                    if rng.random() < 0.6:
                        steps.append({'k': 'ADD', 'tok': W.BENIGN_SPAN[rng.randrange(len(W.BENIGN_SPAN))],
                                      'pos': rng.randint(0, max(ns - 1, 0))})
                        ns += 1
                    else:
                        steps.append({'k': 'ADD', 'tok': W.BENIGN_BLOCK[rng.randrange(len(W.BENIGN_BLOCK))],
                                      'pos': rng.randint(0, max(nb, 0))})
                        nb += 1
                    if rng.random() < 0.7:
                        steps.append({'k': 'RENDER', 'doc': D.PROBES['custom']})
                    continue
                steps.append({'k': 'RENDER', 'doc': doc() if rid != 'Toc' or rng.random() < 0.6 else
                              D.PROBES[('toc_refs', 'toc_doc', 'headings')[rng.randrange(3)]]})
                if p_mutate and rng.random() < p_mutate:
                    steps[-1]['mutate'] = True
                if rid == 'Toc' and rng.random() < 0.4:
                    steps.append({'k': 'TOC'})
            exit_mode = 'propagate' if last_fault and rng.random() < 0.4 else 'normal'
            history.append({'k': 'CTX', 'R': rid, 'opts': opts, 'exit': exit_mode, 'steps': steps})
    return history


def history_rng(seed, batch, index):
    return random.Random(core.derive(seed, 'C11', batch, index))
