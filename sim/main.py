"""Entry point shared by every check: argument parsing, self-tests, exit-code discipline."""
import argparse
import json
import os
import sys
import traceback

from . import core


def main(argv):
    ap = argparse.ArgumentParser(prog='check')
    ap.add_argument('prop', choices=['c11', 'c15', 'selftest', 'helper'])
    ap.add_argument('rest', nargs='*')
    ap.add_argument('--tier', default='quick', choices=['quick', 'thorough'])
    ap.add_argument('--replay')
    ap.add_argument('--no-selftest', action='store_true')
    args = ap.parse_args(argv)
    if args.prop == 'helper':
        from . import selftest
        return selftest.helper(args.rest)
    tier = os.environ.get('VERIF_TIER') or args.tier
    if tier not in ('quick', 'thorough'):
        tier = args.tier
    seed = core.get_seed()
    print('check=%s tier=%s VERIF_SEED=%d repo=%s workers=%d' % (args.prop, tier, seed, core.REPO, core.n_workers()))
    sys.stdout.flush()
    try:
        if args.prop == 'c11':
            from . import c11_main
            return c11_main.main(tier, seed, args.replay, args.no_selftest)
        if args.prop == 'c15':
            from . import c15_main
            return c15_main.main(tier, seed, args.replay, args.no_selftest)
        from . import selftest
        return selftest.main(tier, seed)
    except core.HarnessError as e:
        print('HARNESS-ERROR: %s' % e)
        return core.EXIT_HARNESS
    except Exception:
        print('HARNESS-ERROR: unexpected exception in the simulator\n' + traceback.format_exc())
        return core.EXIT_HARNESS
