"""Seeded text and scenario generators for C15. Pure functions of the seed; no mistletoe calls."""
import glob
import json
import os
import random

from . import core
from . import c11_docs as D
from . import c15_world as CW
from . import c11_world as W

FRAGMENTS = [
    'plain text', 'héllo wörld', '日本語のテキスト', 'emoji 🎉 text', 'nbsp here', '&copy; &amp; &#35;', '*em* **strong** `code`',
    '# Heading', '## H2 ##', 'Setext\n===', 'Setext2\n---', '> quote', '> - list in quote', '- item', '- item\n\n  para', '1. one\n2. two',
    '```py\nx = 1\n```', '~~~\ntilde\n~~~', '    indented code', '<div>\nhtml\n</div>', '<!-- comment -->', 'a | b\n--|--\n1 | 2',
    '[ref]', '[ref]: /url "title"', '[link](/u "t")', '![img](/i.png)', '<http://auto.link>', '***', '\\*escaped\\*', 'line  \nbreak',
    'tab\there', '\tcode by tab', '$math$', '[[wiki|link]]', '~~strike~~', '{{macro}}', 'trailing spaces   ', '\\', '`unclosed', '*',
    '﻿bom', 'zero\x00byte', 'ctrl\x01\x1f', 'ünïcödé ‘quotes’ — dash', '',
]
ALPHABET = list('abc xyz \n\n\n\t*_`#>-+=[]()!<>&;:|~\\"\'$1.{}/') + ['é', 'ß', '日', '🎉', ' ', '​', '﻿', '\x00', '\x7f', '&copy;', '\n\n', '    ', '- ', '> ']


# lines that mean something special to the block parser when they are the LAST line and lack a terminator,
# each with a body that makes them matter
LAST_LINE_CASES = [
    '```\ncode\n```', '~~~~\ncode\n~~~~', '   ```\n   code\n   ```', 'Title\n===', 'Title\n---', 'a | b\n--|--', 'a | b\n:-|-:\n1 | 2',
    'text  ', 'text\\', 'line one  \nline two  ', '[ref]\n\n[ref]: /url', '[ref]\n\n[ref]: /url "title"', '[ref]: /url\n"title', '<pre>\nx\n</pre>',
    '<!-- c\n-->', '<div>\n\n</div>', '-', '- a\n-', '1.', '> quote\n>', '>', 'para\n   ', 'para\n\t', '    code\n    ', '\tcode', '#', '## h ##',
    '***', '- a\n\n  b', '* a\n  * b\n    * c', '`code', '*em', '[link](/u', '![i](/i', '<http://a.b', '&amp', '\\', '$x$', '[[w|l]]', '~~s~~',
]
READING_SIDE_CASES = [
    '#!/usr/bin/env markdown\n# title', '---\ntitle: x\ntags: [a]\n---\n\nbody', '+++\nt = 1\n+++\nbody', '---\n\nnot front matter',
    'e\u0301 vs \u00e9 and A\u030a', '\ufb01 ligature \u2126 ohm \u00b5 micro', 'mid\ufeffdle bom\n\ufeffsecond line bom', 'nul\x00inside\n\x00',
    'a\tb\tc', '-\titem\n\tcont', '>\tquote', '```\n\tcode\n \tx\n```', '1.\tone', 'col\t| b\n--|--\n\t1 | 2', 'a\n\n\n\nb\n\n\n', '  \n\n   \nx',
    'trailing \nspaces  \nhere   \n    code   \n', 'x' * 20000, ('word ' * 3000).strip(), 'a' + ' ' * 5000 + 'b', '\u00a0\u2003\u3000 spaces', '\x7f\x1f\x01 controls',
    'line\\\ncontinued', '<!-- c -->\ntext', '%YAML 1.2\n---\na: b', 'Title: x\nAuthor: y\n\nbody',
]
FIRST_LINE_CASES = ['\ufeff# bom heading', '\x00nul', '   indented three', '    indented four', '\ttab first', '---', '===', '>', '-', '[a]: /u', '```',
                    '<!--', '|a|b|', '\\', ' ', '\u00a0nbsp', '\u200bzwsp', '\U0001F600 astral', 'x' * 300]


# open containers x what the unterminated last line can be: inside verbatim containers a whitespace-only or marker-like last
# line is content, not a separator
OPEN_CONTEXTS = ['```\nfoo\n', '~~~ info\nfoo\n', '<!-- c\n', '<pre>\nx\n', '<script>\n', '<?php\n', '<![CDATA[\n', '<div>\n', '    code\n',
                 '- item\n', '- item\n\n', '1. a\n   ```\n', '> q\n', '> ```\n> x\n', 'para\n', 'a | b\n--|--\n', '[r]: /u\n', '# h\n', 'Title\n']
LAST_LINES = ['', ' ', '  ', '   ', '    ', '     x', '\t', ' \t ', 'x  ', 'x\\', 'x ', '```', '~~~', '-->', '</pre>', '?>', ']]>', '---', '===', '-', '>',
              '  > ', '1.', '|', '\\', '\u00a0', '\u3000', '\x00']


def context_texts():
    out = []
    for c in OPEN_CONTEXTS:
        for l in LAST_LINES:
            out.append(c + l)
    return [t for t in out if CW.in_domain(t)]


def corpus():
    """Inputs taken from the tree under test (data only): spec examples and sample documents, filtered to the domain."""
    texts = []
    try:
        with open(os.path.join(core.REPO, 'test', 'specification', 'commonmark.json'), encoding='utf-8') as f:
            texts += [e['markdown'] for e in json.load(f)]
    except Exception:
        pass
    for p in sorted(glob.glob(os.path.join(core.REPO, 'test', 'samples', '*.md'))):
        try:
            with open(p, encoding='utf-8') as f:
                t = f.read()
            if len(t) < 20000:
                texts.append(t)
            else:
                texts.append(t[:6000])
        except Exception:
            pass
    texts += [D.PROBES[n] for n in sorted(D.PROBES)]
    return [t for t in texts if CW.in_domain(t)]


def big_texts(corp, tier):
    """Texts that cross the usual size thresholds (8 KiB buffers, 64 KiB hints, 128 KiB pipes, 1 MiB): the corpus glued
    together until the size is reached. Deterministic; only line terminator is \n."""
    sizes = [9000, 66000, 70000, 140000, 270000] + ([600000, 1100000] if tier == 'thorough' else [])
    pool = [t for t in corp if 0 < len(t) < 20000]
    out = []
    for k, size in enumerate(sizes):
        parts, total, i = [], 0, k * 37
        while total < size and pool:
            t = pool[i % len(pool)]
            i += 1
            t = t if t.endswith('\n') else t + '\n'
            parts.append(t + '\n')
            total += len(t) + 1
        text = ''.join(parts)
        out.append(text)                  # ends with a blank line
        out.append(text.rstrip('\n'))     # no final newline
    # the same thresholds where character count and byte count diverge (multi-byte text): whatever sizes a buffer in one
    # unit and slices in the other goes wrong exactly here
    units = ['\u65e5\u672c\u8a9e\u306e\u6bb5\u843d\u3067\u3059\u3002', 'h\u00e9llo w\u00f6rld \u00e0 la cr\u00e8me ', '\U0001F600\U0001F680 emoji \U0001F4A1 ',
             '\u0420\u0443\u0441\u0441\u043a\u0438\u0439 \u0442\u0435\u043a\u0441\u0442 ']
    for k, n_chars in enumerate([3000, 22000, 33000, 60000, 65000, 66000] + ([130000, 400000] if tier == 'thorough' else [])):
        unit = units[k % len(units)]
        para = (unit * (80 // len(unit) + 1))[:80].rstrip() + '\n'
        reps = n_chars // len(para) + 1
        blocks = []
        for j in range(reps):
            blocks.append(para)
            if j % 7 == 6:
                blocks.append('\n')
        out.append(('# ' + unit.strip() + '\n\n' + ''.join(blocks))[:n_chars].rstrip('\n') + '\n')
    return out


def big_filler(rng, corp):
    """A text whose rendering exceeds the usual 8 KiB stdout buffer several times."""
    pool = [t for t in corp if 200 < len(t) < 20000] or ['filler paragraph\n\n']
    parts, total = [], 0
    while total < rng.choice([12000, 30000, 70000]):
        t = pool[rng.randrange(len(pool))]
        parts.append(t if t.endswith('\n') else t + '\n')
        total += len(t)
    return '\n'.join(parts)


def gen_text(rng, corp):
    x = rng.random()
    if corp and x < 0.40:
        t = corp[rng.randrange(len(corp))]
    elif x < 0.75:
        parts = [FRAGMENTS[rng.randrange(len(FRAGMENTS))] for _ in range(rng.randint(1, 6))]
        sep = rng.choice(['\n', '\n\n', '\n\n', '\n \n'])
        t = sep.join(parts)
    elif x < 0.90:
        t = ''.join(ALPHABET[rng.randrange(len(ALPHABET))] for _ in range(rng.randint(0, 60)))
    else:
        # random code points from the whole of Unicode (minus the excluded line separators and surrogates)
        cps = []
        for _ in range(rng.randint(1, 40)):
            r = rng.random()
            cp = rng.randrange(0x20, 0x7f) if r < 0.5 else rng.randrange(0, 0x3000) if r < 0.8 else rng.randrange(0, 0x110000)
            c = chr(cp)
            if 0xD800 <= cp <= 0xDFFF or c in CW.FORBIDDEN:
                c = '\n'
            cps.append(c)
        t = ''.join(cps)
    # special first / last lines
    z = rng.random()
    if z < 0.15:
        t = FIRST_LINE_CASES[rng.randrange(len(FIRST_LINE_CASES))] + ('\n' + t if t else '')
    elif z < 0.40:
        last = LAST_LINE_CASES[rng.randrange(len(LAST_LINE_CASES))]
        t = (t.rstrip('\n') + '\n\n' if t.strip('\n') and rng.random() < 0.6 else '') + last
        if rng.random() < 0.7:
            assert CW.in_domain(t), repr(t)
            return t           # keep the special last line unterminated
    # final newline: with, without, doubled
    y = rng.random()
    if y < 0.4:
        t = t.rstrip('\n')
    elif y < 0.8:
        if not t.endswith('\n'):
            t += '\n'
    assert CW.in_domain(t), repr(t)
    return t


LOCALES = ['utf-8', 'ascii', 'latin-1', 'cp1252']
STDOUT_ENCODINGS = ['utf-8', 'ascii', 'latin-1', 'cp1252', 'utf-16']
FAULT_KINDS = ['ENOENT', 'EACCES', 'EIO', 'BADUTF8', 'EPIPE', 'ENOSPC', 'EAGAIN']


def gen_scenario(rng, corp, with_fault):
    rid = W.BUNDLED_IDS[rng.randrange(len(W.BUNDLED_IDS))]
    n_files = rng.choice([1, 1, 2, 2, 3, 5])
    texts = [gen_text(rng, corp) for _ in range(n_files)]
    if n_files > 1 and rng.random() < 0.3:
        texts[-1] = texts[0]                     # the same file twice
    names = ['f%d.md' % i for i in range(n_files)]
    if n_files > 1 and rng.random() < 0.12:
        # names with shell/glob metacharacters next to the plain names they could be confused with
        base = ['n%d.md' % i for i in range(n_files)]
        specials = ['n[%d].md', 'n?%d.md', '*%d.md', 'n%d.m[d]', '~n%d.md', '$HOME%d.md', "q'%d.md", 'n%d.md ', '-%d.md']
        names = list(base)
        j = rng.randrange(1, n_files)
        names[j] = specials[rng.randrange(len(specials))] % (j - 1)
    elif rng.random() < 0.25:
        forms = ['./rel%d.md', 'sub/dir/f%d.md', 'with space %d.md', 'ünï%d.md', 'UPPER%d.MD', 'noext%d', '../up%d.md', 'f%d.markdown']
        names = [forms[rng.randrange(len(forms))] % i for i in range(n_files)]
    if n_files > 1 and texts[-1] is texts[0] and rng.random() < 0.5:
        names[-1] = names[0]                     # literally the same path twice
    knobs = {
        'bufsize': rng.choice([4, 8, 16, 64, 1024, 8192]),
        'read_chunk': rng.choice([1, 2, 3, 7, 64, 8192]),
        'write_chunk': rng.choice([1, 2, 5, 64, 8192]),
        'out_bufsize': rng.choice([1, 8, 64, 8192]),
        'locale': LOCALES[rng.randrange(len(LOCALES))],
        'stdout_encoding': STDOUT_ENCODINGS[rng.randrange(len(STDOUT_ENCODINGS))],
        'entry': rng.choice(['cli.main', '__main__']),
        'omit_r': rng.random() < 0.5,
        'tty': rng.random() < 0.3,
        'argv_shape': CW.ARGV_SHAPES[rng.randrange(len(CW.ARGV_SHAPES))] if rng.random() < 0.4 else CW.ARGV_SHAPES[0],
    }
    fault = None
    if with_fault:
        kind = FAULT_KINDS[rng.randrange(len(FAULT_KINDS))]
        k = rng.randrange(n_files)
        fault = {'kind': kind, 'file': k, 'file_name': names[k], 'at': rng.randint(1, 6)}
        if kind in ('EPIPE', 'ENOSPC', 'EAGAIN'):
            fault['at'] = rng.choice([0, 1, 2, 5, 17, 60, 200, 5000, 8192, 20000])
        if kind == 'EAGAIN':
            fault['times'] = rng.choice([1, 1, 2, 5])
            if rng.random() < 0.5:
                texts[0] = big_filler(rng, corp)      # the retry paths of buffered writers only show on outputs beyond the buffer
    scn = {'R': rid, 'texts': texts, 'names': names, 'knobs': knobs, 'fault': fault,
           'seed': rng.getrandbits(48)}
    # drawn last, so that everything else about scenario (seed, batch, index) is what it was before this knob existed:
    # which of the dotted paths that reach the renderer class is given to -r (0 = canonical, see c15_world.spellings)
    if rng.random() < 0.3:
        knobs['r_spelling'] = rng.randrange(1, 9)
    return scn


def scenario_rng(seed, batch, index):
    return random.Random(core.derive(seed, 'C15', batch, index))
