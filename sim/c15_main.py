import json
import time

from . import core


def main(tier, seed, replay, no_selftest):
    from . import c15_check as C
    if replay:
        return do_replay(replay)
    st = {}
    if not no_selftest:
        t = time.time()
        st = C.selftests(seed, tier)
        st['wall_s'] = round(time.time() - t, 2)
        print('selftests ok: %s' % json.dumps(st))
    out = C.run_check(tier, seed)
    path = C.evidence(tier, seed, out, st)
    tot = out['total']
    print('C15 %s: scenarios=%d comparisons=%d distinct_texts=%d multi_file=%d faults_fired=%s device_events=%s real_runs_validated=%d '
          'seam=%s violations_seen=%d reported=%d known=%d wall=%.1fs (run %.1fs, real %.1fs) evidence=%s' % (
              tier, tot['runs'], tot['compared'], len(tot['texts']), tot['multi_file'], json.dumps(tot['fired'], sort_keys=True),
              json.dumps(tot['stats'], sort_keys=True), out['validated'], 'lost' if tot['seam_lost'] else 'ok', tot['violations'],
              len(out['reported']), len(set(out['known_lines'])), out['wall'], out['t_run'], out['t_real'], path))
    return core.EXIT_VIOLATION if out['reported'] else core.EXIT_OK


def do_replay(path):
    from . import c15_check as C
    with open(path, encoding='utf-8') as f:
        rec = json.load(f)
    judge = C.Judge()
    if rec.get('klass') == 'cli_real':
        ok, out = C.real_replay(judge, rec['scenario'])
        if ok:
            print('NOT-REPRODUCED: the real tool now prints the expected bytes for the recorded scenario')
            return core.EXIT_OK
        print('REPRODUCED by the real tool: stdout=%s' % out[:200].hex())
        print('VIOLATION property=C15 replay=%s' % path)
        return core.EXIT_VIOLATION
    res = judge.run(rec['scenario'])
    v = res['violation']
    if v is None:
        print('NOT-REPRODUCED: the recorded scenario now passes (%d comparisons)' % res['compared'])
        return core.EXIT_OK
    if v['klass'] != rec['klass'] or v['actual'] != rec['actual'] or v['expected'] != rec['expected']:
        print('REPLAY-DIVERGED: a violation shows, but not the recorded one: now channel=%s actual=%s; recorded channel=%s actual=%s'
              % (v['klass'], json.dumps(v['actual'])[:200], rec['klass'], json.dumps(rec['actual'])[:200]))
        return core.EXIT_HARNESS
    print('REPRODUCED channel=%s renderer=%s text=%r expected=%s actual=%s' % (
        v['failing']['channel'], v['failing']['R'], (v['failing'].get('text') or '')[:120], json.dumps(v['expected'])[:300],
        json.dumps(v['actual'])[:300]))
    print('VIOLATION property=C15 replay=%s' % path)
    return core.EXIT_VIOLATION
