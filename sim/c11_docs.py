"""
Probe documents for C11. Every row of the state table in DESIGN.md 1.1 has at least one probe whose
rendering changes if that row is stale. Pure data; no mistletoe import.
"""

PROBES = {
    # Paragraph.parse_setext
    'setext2': 'Foo\n---\n',
    'setext1': 'Foo\nbar\n===\n\npara\n',
    # core_tokens._code_matches (a paragraph WITHOUT a code span shows a stale match; one WITH shows a duplicate)
    'plain': 'hello world\n',
    'plain_em': 'hello *world* and __more__\n',
    'code': 'a `code` b\n',
    'code2': '``a ` b`` and `c`\n',
    # token._root_node / footnotes
    'ref_full': '[bar][foo]\n\n[foo]: /url "title"\n',
    'ref_collapsed': '[foo][]\n\n[foo]: /u\n',
    'ref_shortcut': '[foo]\n\n[foo]: /u\n',
    'ref_undefined': '[foo] and [bar][foo] and [foo][]\n',
    'ref_first_wins': '[foo]: /first\n[foo]: /second\n\n[foo]\n',
    'ref_in_quote': '> [q]\n\n[q]: /quoted\n',
    # labels that meet only after normalisation, defined in one document and merely used in another
    'ref_def_eszett': '[\u1e9e]: /sharp-s "t"\n\n[\u1e9e]\n',
    'ref_use_ss': '[SS] [ss] [\u00df]\n',
    'ref_def_spaces': '[Foo   Bar]: /spaced\n\n[foo bar]\n',
    'ref_use_spaces': '[FOO\nBAR] and [foo bar][]\n',
    'ref_def_angle_paren': '[x]: </u rl> (ti tle)\n\n[x]\n',
    'ref_use_x': '[x] and [X][] and ![x]\n',
    'ref_def_in_list': '- [li]: /in-list\n\n[li]\n',
    'ref_use_li': '[li] [LI][]\n',
    # html._charref
    'entities': '&copy; &copy &#35; &amp; &ouml; &notanentity;\n',
    'entity_def': '[a]: /u&copy\n\n[a] &copy\n',
    'entity_title': '[a](/u "&amp &amp; &copy")\n',
    # Heading.level/content/closing_sequence
    'headings': '# h1\n## h2 ##\n###### h6\n#\n####### seven\n',
    'heading_after': 'text\n### three\n',
    # minimal forms that leave a scratch attribute at its "nothing captured" value, first thing in the document
    'heading_bare': '#\n\nbody\n',
    'heading_bare_indented': '  ##\nbody\n',
    'heading_closed': '## closed ##\n',
    'heading_closed_long': '### a ########   \n',
    'heading_only_hashes': '# #\n## ##\n',
    'fence_plain': '```\ncode\n```\n',
    'fence_indented_info': '   ```` ruby startline=3\n   x\n  y\n   ````\n',
    # CodeFence._open_info
    'fence_py': '```py\nx = 1\n```\n',
    'fence_tilde': '  ~~~ info string\n   code\n  ~~~\n',
    'fence_nested': '````\n```\n````\n',
    'fence_unclosed': '```sh\nrm -rf /\n',
    'indented': '    code line\n\n    more\n',
    # HtmlBlock._end_cond: the seven start conditions
    'html1': '<pre>\nx\n\ny</pre>\nafter\n',
    'html2': '<!-- c\n\nd -->\nafter\n',
    'html3': '<?php\n\necho 1; ?>\nafter\n',
    'html4': '<!DOCTYPE html>\nafter\n',
    'html5': '<![CDATA[\n\nx]]>\nafter\n',
    'html6': '<div>\n*a*\n\n*b*\n',
    'html7': '<custom-tag>\n*a*\n\nb\n',
    'html_inline': 'a <b>bold</b> <!-- c --> <?pi?> z\n',
    'html_script': '<script>alert(1)</script>\n\n<b>x</b> & "q" \'s\'\n',
    # Table
    'table': 'a | b\n--|:-:\n1 | 2\n`c|d` | **e**\n',
    'table_interrupt': 'para\na | b\n- | -\n1 | 2\n',
    # a table whose header is NOT preceded by a paragraph line (no interrupt check runs before Table.read), at line index 1
    'heading_then_table': '# T\na | b\n- | -\n1 | 2\n',
    'hr_then_table': '***\na | b\n:-|-:\n1 | 2\n',
    'blank_then_table': '\na | b\n- | -\n1 | 2\n',
    'heading_then_pipe_para': '# T\nfoo | bar\n',
    # a paragraph followed, without a blank line, by each construct that may or may not interrupt it
    # (the lists of "breaking tokens" are derived from the active token set at parse time)
    'para_html': 'foo\n<div>\nbar\n',
    'para_html_comment': 'foo\n<!-- c -->\nbar\n',
    'para_html7': 'foo\n<custom-tag>\nbar\n',
    'para_fence': 'foo\n```\ncode\n```\n',
    'para_quote': 'foo\n> q\n',
    'para_list': 'foo\n- a\n14. b\n1. c\n',
    'para_hr': 'foo\n***\nbar\n',
    'para_indented': 'foo\n    not code\n',
    'para_linkdef': 'foo\n[a]: /u\n\n[a]\n',
    'quote_para_html': '> foo\n<div>\nbar\n',
    'list_para_html': '- foo\n<div>\nbar\n',
    'list_para_fence': '- foo\n```\ncode\n',
    'blank_lines': 'a\n\n\nb\n   \nc\n',
    # lists and quotes (ptag stack, Jira/XWiki list state)
    'list_tight': '- a\n- b\n',
    'list_loose': '- a\n\n- b\n',
    'list_nested': '1. a\n   - b\n   - c\n2. d\n',
    'list_mixed': '- a\n\n  para\n- > q\n- ```\n  c\n  ```\n',
    'list_para': '- a\n- b\n\npara after\n',
    'quote': '> quote\n\npara after\n',
    'list_quote_last': '- a\n- > q\n',
    'quote_olist_nested': '> 1. a\n>    1. b\n> 2. c\n',
    'list_table': '- a | b\n  --|--\n  1 | 2\n',
    'quote_quote_list': '> > - x\n> >\n> > y\n',
    'list_code_last': '- a\n\n      code\n',
    'deep_list': '- a\n  - b\n    - c\n      1. d\n',
    'olist_start': '7) seven\n8) eight\n',
    'quote_list': '> - a\n> - b\n>\n> tail\n',
    'quote_setext': '> Foo\n> ---\n',
    'quote_lazy': '> a\nlazy\n',
    'para2': 'one\n\ntwo\n',
    # spans
    'spans': '~~s~~ ![i](/i.png "t") [l](/u) <http://a.b> <a@b.c>\n',
    'emphasis': '***a** b* _c_ __d__ *e **f***\n',
    'escapes': 'a\\*b\\\nline  \nnext \\` \\\\\n',
    'breaks': 'soft\nbreak  \nhard\n',
    # contrib extensions
    'wiki': '[[wiki|target]] [[a b | c d]]\n',
    'math': '$x^2$ and $$y_1$$ and $ 5\n',
    'xwiki_macro': '{{macro}}\nbody\n{{/macro}}\n',
    'hr': '***\n---\n___\n',
    # benign custom tokens: must be literal text outside their context
    'custom': '{{x}} and {{*y*}} <<twin *t*>> --dash-- ((re *enter* `c` &copy))\n\n!!! bang *line*\n\npara\n!!! interrupts?\n\nintro\n!! callout !!\nmore\n',
    # edge
    'empty': '',
    'blank': '\n',
    'nofinalnl': 'no newline',
    # inputs on which some renderers crash naturally on the pinned tree (still must crash the same way)
    'empty_quote': '>\n',
    'empty_item': '-\n\n  x\n',
    'empty_item2': '- \n- a\n',
    'latex_verb': '`' + '|!"\'=+#$%&()*,-./:;<>?@[]^_{}~0123456789\\' + '`\n',
    'pyg_unknown': '```nosuchlang\nx\n```\n',
    'toc_doc': '# T\n## a *b*\n### c `d`\n#### e\n## [l](/u)\n',
    'toc_refs': '## \\[ref\\] and \\[foo\\]\n### plain *em* \\`c\\`\n',
}

# a paragraph line directly followed by each construct that may interrupt it, at every indentation that matters (0-3 spaces:
# the construct; 4+ spaces or a tab: NOT the construct, but a look-ahead may still take it for one), and the same inside a
# quote and a list item (lazy continuation)
_INTERRUPTERS = {
    'heading': ['# h'], 'quote': ['> q'], 'fence': ['```', 'code', '```'], 'list': ['- item'], 'olist': ['1. one'], 'olist7': ['7. seven'],
    'table': ['col | col', '--- | ---', '1 | 2'], 'html': ['<div>', 'x', '</div>'], 'hr': ['***'], 'setext': ['==='], 'linkdef': ['[k]: /u'],
}
_INDENTS = {'0': '', '1': ' ', '3': '   ', '4': '    ', '8': '        ', 't': '\t'}
INTERRUPT_PROBES = {}
for _c, _lines in sorted(_INTERRUPTERS.items()):
    for _i, _ind in sorted(_INDENTS.items()):
        INTERRUPT_PROBES['intr_%s_%s' % (_c, _i)] = 'Lead line:\n' + ''.join(_ind + l + '\n' for l in _lines)
    INTERRUPT_PROBES['intr_%s_in_quote' % _c] = '> Lead line:\n' + ''.join(l + '\n' for l in _lines)
    INTERRUPT_PROBES['intr_%s_in_list' % _c] = '- Lead line:\n' + ''.join(l + '\n' for l in _lines)

# "atoms": strings whose interpretation depends on WHERE they stand (which unescaping / escaping pass sees them), each put
# into every syntactic position. Any memoisation keyed on the string alone shows up as a pair (atom at position p, then the
# same atom at position q).
ATOMS = ['&copy', '&amp', '&#12345678;', '&lt;b&gt', 'a\\*b', 'x%20y', '\u00f6', '<b>']
ATOM_POSITIONS = {
    'def_dest': '[r]: {a}\n\n[r]\n',
    'def_title': '[r]: /u "{a}"\n\n[r]\n',
    'inline_dest': '[t]({a})\n',
    'inline_title': '[t](/u "{a}")\n',
    'image_src': '![t]({a})\n',
    'image_title': '![t](/u "{a}")\n',
    'fence_info': '```{a}\nx\n```\n',
    'fence_info_after_text': 'p\n\n~~~ {a}\nx\n~~~\n',
    'autolink': '<http://h/{a}>\n',
    'code_span': '`{a}`\n',
    'text': '{a}\n',
    'heading': '# {a}\n',
    'cell': 'h\n-\n{a}\n',
    'html_attr': '<a href="{a}">\n',
}
ATOM_PROBES = {'atom%d_%s' % (i, pos): tpl.replace('{a}', a)
               for i, a in enumerate(ATOMS) for pos, tpl in sorted(ATOM_POSITIONS.items())}

# "same key, different truth": documents that agree on something a cache might be keyed by (a language label, a link label
# as written, a URL, a heading text, a code body, a cell text) but must render differently
SAMEKEY_FAMILIES = {
    'unknown_language': ['```nosuchlang\n<?xml version="1.0"?>\n<a b="c"/>\n```\n', '```nosuchlang\n#!/bin/bash\necho hi\n```\n',
                         '```nosuchlang\nx\n```\n', '~~~ nosuchlang extra\nSELECT 1;\n~~~\n'],
    'label_spelling_ws': ['[Foo   Bar]: /one\n\n[FOO\nBAR]\n', '[foo bar]: /two "T"\n\n[FOO\nBAR]\n', '[FOO\nBAR]\n',
                          '> [foo\tbar]: /three\n\n[FOO\nBAR] ![FOO\nBAR]\n'],
    'label_plain': ['[k]: /one\n\n[k] [k][] [t][k]\n', '[k]: /two "T"\n\n[k] [k][] [t][k]\n', '[k] [k][] [t][k]\n', '[K]: /three\n\n[k]\n'],
    'url_title': ['[a](/u "t1")\n', '[a](/u "t2")\n', '[a](/u)\n', '[a]: /u "t3"\n\n[a]\n'],
    'heading_text': ['# same text\n', '## same text\n', 'same text\n===\n', 'same text\n---\n', '###### same text ##\n'],
    'code_body': ['```py\nx = 1\n```\n', '```js\nx = 1\n```\n', '```\nx = 1\n```\n', '    x = 1\n', '`x = 1`\n'],
    'cell_text': ['c | d\n:-|-:\nv | w\n', 'c | d\n-:|:-\nv | w\n', 'c | d\n:-:|---\nv | w\n', 'c | d\nv | w\n',
                  # same header, alignment and row count, body cells of other widths (a layout memo keyed by the header)
                  'c | d\n:-|-:\nmuch wider cell | w\n', 'c | d\n:-|-:\nv | w and more\n', 'c | d\n:-|-:\n | \n'],
    'para_breaks': ['same line\nnext\n', 'same line  \nnext\n', 'same line\\\nnext\n', 'same line\n\nnext\n'],
    'list_marker': ['- item\n- two\n', '* item\n* two\n', '1. item\n2. two\n', '3) item\n4) two\n', '- item\n\n- two\n'],
    'html_or_text': ['<b>x</b>\n', '\\<b>x\\</b>\n', '`<b>x</b>`\n', '<b>x</b>\n\n<b>x</b> y\n'],
    # the same empty list item (same marker, same indentation) as last item before other content, in the middle of a list,
    # tight, and as the whole list: looseness and end-of-list bookkeeping differ
    'empty_item': ['1. a\n2.\n\ntext\n', '1. a\n2.\n\n3. c\n', '1. a\n2.\n3. c\n', '2.\n', '1. a\n2.\n\n   x\n',
                   '- a\n-\n\ntext\n', '- a\n-\n\n- c\n', '- a\n-\n- c\n'],
}

# seeded document synthesiser: templates whose slots are filled from SMALL SHARED pools, so that the documents of one random
# history keep meeting the same labels, URLs, titles, language names and texts in different roles and with different truths
POOL = {
    'label': ['k', 'Foo Bar', 'FOO\nBAR', 'foo  bar', '\u1e9e', 'ss', 'a*b', 'x]y'.replace(']', '\\]')],
    'url': ['/u', '/u&copy', '/u?a=1&amp=2', '</u rl>', 'http://h/%20', '#frag', ''],
    'title': ['t', 'T&amp', 'ti "tle', "it's", ''],
    'lang': ['py', 'nosuchlang', 'c++', '&lt', ''],
    'text': ['same text', 'x = 1', '<b>x</b>', '&copy', 'a | b', '*em*', '`c`', '#', '-', '1.', '>', '   '],
}
TEMPLATES = [
    '[{label}]: {url} "{title}"\n', '[{label}]: {url}\n', '> [{label}]: {url}\n', '[{label}]\n', '[{text}][{label}]\n', '[{label}][]\n',
    '![{label}]\n', '[{text}]({url} "{title}")\n', '[{text}]({url})\n', '![{text}]({url})\n', '<{url}>\n',
    '```{lang}\n{text}\n```\n', '~~~ {lang} {title}\n{text}\n~~~\n', '    {text}\n', '`{text}`\n',
    '# {text}\n', '## {text} ##\n', '{text}\n===\n', '{text}\n---\n', '{text}\n', '{text}  \n{text}\n',
    '- {text}\n- {text}\n', '1. {text}\n', '- {text}\n\n  {text}\n', '> {text}\n', '> - {text}\n',
    '{text} | {text}\n:-|-:\n{text} | {text}\n', '<div>\n{text}\n</div>\n', '<!-- {text} -->\n', '{{{{{text}}}}} !!! {text}\n', '[[{text}|{url}]] ${text}$\n',
]


def synth_doc(rng):
    parts = []
    for _ in range(rng.randint(1, 3)):
        t = TEMPLATES[rng.randrange(len(TEMPLATES))]
        parts.append(t.format(**{k: v[rng.randrange(len(v))] for k, v in POOL.items()}))
    return '\n'.join(parts)


PROBES.update(INTERRUPT_PROBES)

# one sentinel per row of the state table (systematic sweep uses these right after every fault variant)
SENTINELS = ['setext2', 'plain', 'code', 'ref_shortcut', 'ref_undefined', 'entity_def', 'headings',
             'fence_tilde', 'html2', 'table_interrupt', 'list_tight', 'list_loose', 'custom', 'quote',
             'html_script', 'para_html', 'list_para_html', 'quote_para_html', 'pyg_unknown', 'heading_then_table']

# documents that end in an exception without any custom token (F3b); when a later tree no longer
# crashes on them they silently become ordinary documents
CRASHERS = {
    'crash_emph': '`code` **a****b*\n',
    'crash_emph_quote': '> `code` **a****b*\n',
    'crash_emph_list': '- `x` [r]\n- `code` **a****b*\n\n[r]: /u\n',
}

SCHEME_PROGRAMS = ['(define <b> 5) (+ <b> 1)', '(define x 2) (* x 21)', '(define (sq n) (* n n)) (sq 7)', '(+ 1 FAULTSPAN)', '(cons 1 (cons 2 null))',
                   '(+ 1 2)', '(* (+ 1 2) (- 9 4))', '(if (< 1 2) 10 20)', '(car (cons 1 2))', '(undefined-var)', '(+ 1']


def nest(kind, depth, leaf='x `c` [r] *e*'):
    """Deeply nested construct for F3a (RecursionError at a seeded depth)."""
    if kind == 'quote':
        return '>' * depth + ' ' + leaf + '\n'
    if kind == 'quote_spaced':
        return '> ' * depth + leaf + '\n'
    if kind == 'list':
        return ''.join('- ' for _ in range(depth)) + leaf + '\n'
    if kind == 'quote_list':
        return ''.join('> - ' for _ in range(depth // 2)) + leaf + '\n'
    if kind == 'emph':
        return '`c` ' + '*' * 0 + ''.join('*a ' for _ in range(depth)) + leaf + ''.join(' a*' for _ in range(depth)) + '\n'
    if kind == 'link':
        return '[' * depth + leaf + ''.join('](/u)' for _ in range(depth)) + '\n'
    raise ValueError(kind)


NEST_KINDS = ['quote', 'quote_spaced', 'list', 'quote_list', 'emph', 'link']

_SPAN_BODY = '`code` [ref] &amp; *em* %s tail `more`'
PLACEMENTS = ['top', 'quote', 'list', 'quote_in_list', 'list_in_quote', 'loose_list', 'heading', 'table', 'after_para']


def place(line, placement):
    """Put a trigger line somewhere in a document so that different readers are on the stack when it fires."""
    if placement == 'top':
        return 'intro `c`\n\n' + line + '\n\n[ref]: /u\n'
    if placement == 'after_para':
        return 'para `c` line\n' + line + '\n\n[ref]: /u\n'
    if placement == 'quote':
        return '> intro\n>\n> ' + line + '\n\n[ref]: /u\n'
    if placement == 'list':
        return '- first `c`\n- ' + line + '\n- last\n\n[ref]: /u\n'
    if placement == 'loose_list':
        return '- first\n\n- ' + line + '\n\n  more\n\n[ref]: /u\n'
    if placement == 'quote_in_list':
        return '- > ' + line + '\n\n[ref]: /u\n'
    if placement == 'list_in_quote':
        return '> 1. a\n> 2. ' + line + '\n\n[ref]: /u\n'
    if placement == 'heading':
        return '## ' + line + '\n\n[ref]: /u\n'
    if placement == 'table':
        return 'h1 | h2\n-- | --\n' + line + ' | x\n\n[ref]: /u\n'
    # the trigger line is at the same time the first line of a construct that interrupts the paragraph before it
    if placement == 'para_then_table':
        return 'intro `c`\n| ' + line + ' | x |\n|---|---|\n| old | row |\n\n[ref]: /u\n'
    if placement == 'para_then_heading':
        return 'intro `c`\n# ' + line + '\n\n[ref]: /u\n'
    if placement == 'para_then_fence':
        return 'intro `c`\n```' + line.split()[0] + '\ncode\n```\n\n[ref]: /u\n'
    if placement == 'para_then_html':
        return 'intro `c`\n<div class="' + line.split()[0] + '">\nx\n</div>\n\n[ref]: /u\n'
    if placement == 'para_then_list':
        return 'intro `c`\n- ' + line + '\n\n[ref]: /u\n'
    if placement == 'para_then_quote':
        return 'intro `c`\n> ' + line + '\n\n[ref]: /u\n'
    raise ValueError(placement)


def fault_doc(tok_id, placement):
    """A document that makes the given fault token fire, placed as requested."""
    if tok_id in ('FaultBlockStart', 'FaultBlockRead', 'FaultBlockInit', 'FaultBlockInterrupt', 'FaultBlockReadAbort'):
        if placement in ('heading', 'table'):
            placement = 'top'
        if placement.startswith('para_then_'):
            return place('FAULTLINE', placement)
        if tok_id == 'FaultBlockInterrupt' and placement == 'top':
            placement = 'after_para'
        line = 'FAULTLINE'
        if tok_id == 'FaultBlockInterrupt':
            line = 'lead `c` text\n' + {'quote': '> ', 'list': '  ', 'loose_list': '  ', 'quote_in_list': '  > ',
                                        'list_in_quote': '>    ', 'after_para': '', 'top': ''}[placement] + 'FAULTLINE'
        return place(line, placement)
    if tok_id in ('FaultSpanFind', 'FaultSpanInit', 'FaultSpanInitAbort'):
        return place(_SPAN_BODY % 'FAULTSPAN', placement)
    if tok_id == 'RenderFaultSpan':
        return place(_SPAN_BODY % 'RENDERFAULT', placement)
    if tok_id == 'RenderAbortSpan':
        return place(_SPAN_BODY % 'RENDERABORT', placement)
    if tok_id == 'RenderFaultBlock':
        if placement in ('heading', 'table', 'after_para'):
            placement = 'top'
        return place('BLOCKRENDERFAULT', placement)
    raise ValueError(tok_id)


# natural render-phase refusals (F4): document + the renderer/options under which it refuses
def natural_render_fault(rid, placement):
    if rid == 'LaTeX':
        body = PROBES['latex_verb'].strip()
        if placement in ('top', 'after_para'):
            return '~~s~~ ' + body + '\n'
        return place('~~s~~ ' + body, placement)
    if rid == 'Pygments':   # needs fail_on_unsupported_language=True
        fence = '```nosuchlang\nx\n```'
        ind = {'top': '', 'after_para': '', 'quote': '> ', 'list': '  ', 'loose_list': '  ', 'quote_in_list': '  > ',
               'list_in_quote': '>    ', 'heading': '', 'table': ''}[placement]
        lead = {'top': '', 'after_para': 'para\n', 'quote': '', 'list': '- a\n- b\n\n', 'loose_list': '- a\n\n',
                'quote_in_list': '- > q\n', 'list_in_quote': '> 1. a\n', 'heading': '# h\n', 'table': ''}[placement]
        first = {'list': '- ', 'loose_list': '- ', 'quote_in_list': '', 'list_in_quote': '> 2. '}.get(placement)
        lines = fence.split('\n')
        if first is not None and placement in ('list', 'loose_list', 'list_in_quote'):
            out = [first + lines[0]] + [ind + l for l in lines[1:]]
        elif placement == 'quote_in_list':
            out = ['  > ' + l for l in lines]
        else:
            out = [ind + l for l in lines]
        return lead + '\n'.join(out) + '\n'
    if rid in ('XWiki20', 'Jira'):
        return {'quote': '>\n', 'list': '- a\n-\n\n  x\n', 'loose_list': '- a\n\n-\n\n- c\n',
                'quote_in_list': '- a\n- >\n', 'list_in_quote': '> - a\n> -\n>\n>   x\n'}.get(placement, '- a\n  - b\n  -\n\n    x\n')
    raise ValueError(rid)
